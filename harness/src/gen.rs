//! proptest strategies for whole-system cases.

use crate::shadow::case::*;
use proptest::prelude::*;

/// boundary-biased extra payload sizes (bytes beyond header and slots)
pub fn extra_size() -> impl Strategy<Value = u32> {
    prop_oneof![
        6 => 0u32..96,
        3 => 96u32..700,
        2 => prop_oneof![Just(256u32 - 32), Just(256u32 - 40), Just(256u32), Just(512u32 - 32), 200u32..300],
        2 => 1500u32..8300,
        1 => prop_oneof![Just(8192u32 - 32), Just(8192u32 - 24), Just(8192u32), Just(8192u32 + 8)],
        1 => prop_oneof![Just(16384u32 - 32), Just(16384u32 - 40), Just(16384u32), 16000u32..17000],
        1 => prop_oneof![Just(32768u32 - 32), Just(32768u32 - 40), Just(32768u32), 32000u32..33000],
        1 => prop_oneof![Just(65536u32 - 32), Just(65536u32 - 48), Just(65536u32), 65000u32..66000],
        1 => 70000u32..300000,
    ]
}

pub fn small_extra() -> impl Strategy<Value = u32> {
    prop_oneof![8 => 0u32..128, 2 => 128u32..1200, 1 => 1200u32..9000]
}

fn alloc_op(big: bool, sems: bool, kinds: bool) -> BoxedStrategy<Op> {
    let extra = if big { extra_size().boxed() } else { small_extra().boxed() };
    let sem = if sems { prop_oneof![6 => Just(0u8), 1 => Just(1u8), 1 => Just(2u8), 1 => Just(6u8), 1 => 3u8..6].boxed() } else { Just(0u8).boxed() };
    let kind = if kinds { prop_oneof![6 => Just(0u8), 1 => Just(4u8), 3 => 1u8..4].boxed() } else { prop_oneof![8 => Just(0u8), 1 => Just(4u8)].boxed() };
    (any::<u8>(), any::<u8>(), extra, 0u8..8, kind, sem, 0u8..4, 0u8..16, any::<u8>())
        .prop_map(|(m, root, extra, nrefs, kind, sem, align_log, offset_w, referent)| Op::Alloc { m, root, extra, nrefs, kind, sem, align_log, offset_w, referent })
        .boxed()
}

#[derive(Clone, Copy, Debug)]
pub struct Mix {
    pub big: bool,
    pub sems: bool,
    pub weak: bool,
    pub finalizers: bool,
    pub ephemerons: bool,
    pub pins: bool,
    pub region_copy: bool,
    pub gc_weight: u32,
    pub churn_weight: u32,
    pub probes: u32,
    pub mutator_ops: bool,
    pub fork: u32,
    pub weak_pairs: u32,
    pub fin_objs: u32,
    pub hide: u32,
    pub dense: u32,
    pub marking_window: u32,
    pub gc_loop: u32,
    pub alloc_opts: u32,
    pub nursery_gc: bool,
    pub old_young: u32,
}

impl Mix {
    pub const BASIC: Mix = Mix { big: true, sems: true, weak: false, finalizers: false, ephemerons: false, pins: false, region_copy: true, gc_weight: 6, churn_weight: 3, probes: 0, mutator_ops: true, fork: 0, weak_pairs: 0, fin_objs: 0, hide: 0, dense: 1, marking_window: 0, gc_loop: 0, alloc_opts: 0, nursery_gc: true, old_young: 2 };
}

pub fn op(mix: Mix) -> BoxedStrategy<Op> {
    let mut v: Vec<(u32, BoxedStrategy<Op>)> = vec![
        (30, alloc_op(mix.big, mix.sems, mix.weak)),
        (25, (any::<u8>(), any::<u8>(), any::<u8>(), any::<u8>(), any::<u8>(), prop::bool::weighted(0.1)).prop_map(|(m, src, field, dm, dst, null)| Op::Write { m, src, field, dm, dst, null }).boxed()),
        (8, (any::<u8>(), any::<u8>(), any::<u8>(), any::<u8>()).prop_map(|(m, src, field, dst)| Op::Load { m, src, field, dst }).boxed()),
        (5, (any::<u8>(), any::<u8>(), any::<u8>(), any::<u8>()).prop_map(|(m, from, dm, to)| Op::CopyRoot { m, from, dm, to }).boxed()),
        (10, (any::<u8>(), any::<u8>()).prop_map(|(m, root)| Op::DropRoot { m, root }).boxed()),
        (2, (any::<u8>(), any::<u8>(), any::<u8>()).prop_map(|(m, root, g)| Op::SetGlobal { m, root, g }).boxed()),
        (1, any::<u8>().prop_map(|g| Op::DropGlobal { g }).boxed()),
        (4, (any::<u8>(), any::<u8>(), 1u8..40, small_extra(), prop_oneof![5 => Just(0u8), 1 => Just(6u8), 1 => Just(1u8)]).prop_map(|(m, root, n, extra, sem)| Op::Chain { m, root, n, extra: extra as u16, sem }).boxed()),
        (3, (any::<u8>(), any::<u8>(), any::<u8>(), 2u8..48).prop_map(|(m, target, holder, n)| Op::FanIn { m, target, holder, n }).boxed()),
        (mix.gc_weight, (any::<u8>(), prop::bool::weighted(0.9), if mix.nursery_gc { any::<bool>().boxed() } else { Just(true).boxed() }).prop_map(|(m, force, exhaustive)| Op::Gc { m, force, exhaustive }).boxed()),
        (mix.churn_weight, (any::<u8>(), prop_oneof![3 => 16u16..400, 1 => 400u16..3000], 0u16..512).prop_map(|(m, kb, size)| Op::Churn { m, kb, size }).boxed()),
    ];
    if mix.region_copy {
        v.push((5, (any::<u8>(), any::<u8>(), any::<u8>(), any::<u8>(), any::<u8>(), any::<u8>(), any::<bool>()).prop_map(|(m, src, dst, si, di, len, with_obj)| Op::RegionCopy { m, src, dst, si, di, len, with_obj }).boxed()));
    }
    if mix.pins {
        v.push((5, (any::<u8>(), any::<u8>()).prop_map(|(m, root)| Op::Pin { m, root }).boxed()));
        v.push((2, (any::<u8>(), any::<u8>()).prop_map(|(m, root)| Op::Unpin { m, root }).boxed()));
        v.push((3, (any::<u8>(), any::<u8>(), 0u8..3).prop_map(|(m, root, kind)| Op::RootKind { m, root, kind }).boxed()));
    }
    if mix.finalizers {
        v.push((5, (any::<u8>(), any::<u8>()).prop_map(|(m, root)| Op::AddFinalizer { m, root }).boxed()));
        v.push((4, (any::<u8>(), any::<u8>(), 0u8..8).prop_map(|(m, root, n)| Op::PopFinalized { m, root, n }).boxed()));
        v.push((3, (any::<u8>(), any::<u8>()).prop_map(|(m, root)| Op::GetFinalizersFor { m, root }).boxed()));
        v.push((1, Just(Op::GetAllFinalizers).boxed()));
    }
    if mix.weak {
        v.push((2, (any::<u8>(), any::<u8>()).prop_map(|(m, root)| Op::ClearReferent { m, root }).boxed()));
        v.push((4, (any::<u8>(), any::<u8>(), any::<u8>()).prop_map(|(m, src, dst)| Op::GetReferent { m, src, dst }).boxed()));
    }
    if mix.ephemerons {
        v.push((4, (any::<u8>(), any::<u8>(), any::<u8>()).prop_map(|(m, key, val)| Op::AddEphemeron { m, key, val }).boxed()));
        v.push((4, (any::<u8>(), any::<u8>(), 0u8..7).prop_map(|(m, root, k)| Op::EphChain { m, root, k }).boxed()));
    }
    if mix.probes > 0 {
        v.push((mix.probes, (0u8..2, any::<u32>()).prop_map(|(kind, seed)| Op::Probe { kind, seed }).boxed()));
    }
    if mix.mutator_ops {
        v.push((1, any::<u8>().prop_map(|m| Op::BindMutator { m }).boxed()));
        v.push((1, any::<u8>().prop_map(|m| Op::DestroyMutator { m }).boxed()));
        v.push((2, (any::<u8>(), any::<u8>()).prop_map(|(m, k)| Op::RacingGc { m, k }).boxed()));
    }
    if mix.old_young > 0 {
        v.push((mix.old_young, (any::<u8>(), any::<u8>(), any::<u8>(), 0u16..600, prop::bool::weighted(0.3)).prop_map(|(m, src, field, extra, via_region)| Op::OldYoung { m, src, field, extra, via_region }).boxed()));
    }
    if mix.fork > 0 {
        v.push((mix.fork, Just(Op::ForkCycle).boxed()));
        v.push(((mix.fork / 2).max(1), any::<u8>().prop_map(|m| Op::ForkDuringGc { m }).boxed()));
    }
    if mix.weak_pairs > 0 {
        v.push((mix.weak_pairs, (any::<u8>(), any::<u8>(), 1u8..4, 0u8..4, prop_oneof![5 => Just(0u8), 1 => Just(2u8), 1 => Just(6u8), 1 => Just(1u8)], 0u8..4, prop::bool::weighted(0.2)).prop_map(|(m, root, kind, keep, sem, chain, fin)| Op::WeakPair { m, root, kind, keep, sem, chain, fin }).boxed()));
    }
    if mix.fin_objs > 0 {
        v.push((mix.fin_objs, (any::<u8>(), any::<u8>(), 0u8..6, 1u8..3, prop::bool::weighted(0.75)).prop_map(|(m, root, n, regs, drop)| Op::FinObj { m, root, n, regs, drop }).boxed()));
    }
    if mix.dense > 0 {
        v.push((mix.dense, (any::<u8>(), any::<u8>(), 0u8..32, prop_oneof![3 => Just(0u8), 1 => Just(8u8), 1 => Just(32u8), 1 => 0u8..100], 0u8..4).prop_map(|(m, root, n, extra, keep)| Op::DenseFill { m, root, n, extra, keep }).boxed()));
    }
    if mix.marking_window > 0 {
        v.push((mix.marking_window, (any::<u8>(), any::<u32>(), 1u8..12).prop_map(|(m, seed, n)| Op::MarkingWindow { m, seed, n }).boxed()));
    }
    if mix.gc_loop > 0 {
        v.push((mix.gc_loop, (any::<u8>(), prop_oneof![3 => 2u8..20, 1 => 120u8..160], any::<u32>()).prop_map(|(m, n, seed)| Op::GcLoop { m, n, seed }).boxed()));
    }
    if mix.hide > 0 {
        v.push((mix.hide, (any::<u8>(), any::<u8>(), any::<u8>()).prop_map(|(m, src, dst)| Op::Hide { m, src, dst }).boxed()));
    }
    if mix.alloc_opts > 0 {
        v.push((mix.alloc_opts, (any::<u8>(), any::<u8>(), 0u8..8, prop_oneof![4 => Just(0u8), 1 => Just(2u8), 1 => Just(1u8), 1 => Just(6u8)], any::<bool>(), any::<bool>(), any::<bool>()).prop_map(|(m, root, size_class, sem, overcommit, at_safepoint, allow_oom)| Op::AllocOpts { m, root, size_class, sem, overcommit, at_safepoint, allow_oom }).boxed()));
    }
    v.retain(|(w, _)| *w > 0);
    proptest::strategy::Union::new_weighted(v).boxed()
}

pub fn plan_of(idx: usize) -> &'static str {
    PLANS[idx % PLANS.len()]
}

/// variants legal for a plan (Compressor requires a unified object reference address)
pub fn variant_for(plan: &str, v: u8) -> u8 {
    let v = v % 4;
    if plan == "Compressor" && (v == 2 || v == 3) {
        v - 2
    } else if plan == "ConcurrentImmix" && v == 2 {
        // known finding C12 concurrent-immix-header-log-bit-no-satb: variant 2 keeps the log bit in the header
        0
    } else {
        v
    }
}

pub fn heap_kb() -> impl Strategy<Value = u32> {
    prop_oneof![3 => 3000u32..8000, 3 => 8000u32..20000, 1 => 20000u32..40000]
}

pub fn plan_opts(plan: &'static str) -> BoxedStrategy<Vec<(String, String)>> {
    let mut opts: Vec<BoxedStrategy<Option<(String, String)>>> = vec![];
    let o = |k: &str, v: &str| Some((k.to_string(), v.to_string()));
    if plan != "NoGC" {
        opts.push(prop_oneof![6 => Just(None), 1 => Just(o("stress_factor", "65536")), 1 => Just(o("stress_factor", "262144")), 1 => Just(o("stress_factor", "1048576"))].boxed());
    }
    opts.push(prop_oneof![3 => Just(None), 1 => Just(o("full_heap_system_gc", "true"))].boxed());
    if plan.contains("Immix") {
        opts.push(prop_oneof![2 => Just(None), 2 => Just(o("immix_always_defrag", "true"))].boxed());
        opts.push(prop_oneof![2 => Just(None), 1 => Just(o("immix_defrag_every_block", "true"))].boxed());
        opts.push(prop_oneof![3 => Just(None), 1 => Just(o("immix_defrag_headroom_percent", "20")), 1 => Just(o("immix_defrag_headroom_percent", "0"))].boxed());
    }
    if plan.starts_with("Gen") || plan == "StickyImmix" {
        opts.push(prop_oneof![2 => Just(None), 1 => Just(o("nursery", "Fixed:1048576")), 1 => Just(o("nursery", "Bounded:524288,2097152")), 1 => Just(o("nursery", "ProportionalBounded:0.1,0.5"))].boxed());
    }
    if plan == "ConcurrentImmix" {
        opts.push(prop_oneof![4 => Just(None), 1 => Just(o("concurrent_immix_disable_concurrent_marking", "true"))].boxed());
    }
    if plan == "MarkSweep" {
        opts.push(prop_oneof![2 => Just(None), 1 => Just(o("eager_complete_sweep", "true"))].boxed());
    }
    opts.prop_map(|v| v.into_iter().flatten().collect()).boxed()
}

/// A whole case for the given plan selection and op mix.
pub fn case(plans: &'static [&'static str], mix: Mix, focus: &'static str, max_ops: usize) -> BoxedStrategy<Case> {
    (0..plans.len())
        .prop_flat_map(move |pi| {
            let plan = plans[pi];
            (Just(plan), any::<u8>(), heap_kb(), 1u8..5, 1u8..4, plan_opts(plan), prop_oneof![3 => Just(0u32), 1 => 1u32..3000], prop::collection::vec(op(mix), 10..max_ops))
        })
        .prop_map(move |(plan, v, heap_kb, workers, mutators, mut opts, copy_spin, ops)| {
            // a quarter of the cases run on the build without `vo_bit` (lazy sweeping, no VO bits), except
            // for the properties that are about VO bits
            if !matches!(focus, "C07" | "C08") && (v >> 2) % 4 == 0 {
                opts.push(("__build".to_string(), "base".to_string()));
            }
            // the binding adds work packets of its own to later stages of every pause (half of the scheduler
            // cases, an eighth of the others)
            if (focus == "C15" && (v >> 4) % 2 == 0) || (v >> 4) % 8 == 1 {
                opts.push(("__vm_packets".to_string(), "1".to_string()));
            }
            Case { plan: plan.to_string(), variant: variant_for(plan, v), heap_kb, dyn_heap: None, workers, mutators, opts, copy_spin, focus: focus.to_string(), ops }
        })
        .boxed()
}

/// C09: allocate up to a fraction of the heap, let everything survive one GC, drop everything, exhaustive GC; repeated.
pub fn c09_case(long: bool) -> BoxedStrategy<Case> {
    let plans = &COLLECTING_PLANS;
    // per mix entry: (objects per chain, payload size, semantics, weak reference?, finalizer?)
    let size = prop_oneof![
        6 => (0u32..128).boxed(),
        3 => (128u32..1200).boxed(),
        2 => (1200u32..9000).boxed(),
        // the largest mark-sweep size classes and sizes around the LOS thresholds
        2 => prop_oneof![Just(8192u32 - 48), Just(16384 - 48), Just(32768 - 48), 57300u32..65480, Just(65488u32)].boxed(),
    ];
    (0..plans.len(), any::<u8>(), 1u8..4, 10000u32..24000, if long { 60u32..300 } else { 12u32..40 }, prop::collection::vec((1u8..30, size, prop_oneof![6 => Just(0u8), 1 => Just(2u8), 1 => Just(6u8)], any::<bool>(), any::<bool>()), 2..6), any::<bool>(), 1u8..3)
        .prop_map(move |(pi, v, workers, heap_kb, cycles, mix, survive_first, mutators)| {
            let plan = plans[pi];
            let mut ops = vec![];
            let budget_kb = heap_kb as usize / 4;
            for cyc in 0..cycles {
                let m = (cyc % mutators as u32) as u8 * 128;
                let mut used_kb = 0usize;
                for (k, (n, extra, sem, weakish, fin)) in mix.iter().enumerate() {
                    let root = ((k * 37 + 11) % 250) as u8;
                    // sizes vary per cycle so that freed memory is reused at different granularities
                    let extra = ((*extra + (cyc * 8) % 64).min(65488)) as u16;
                    // keep the volume per cycle at about a quarter of the heap
                    let per = (extra as usize + 48) / 1024 + 1;
                    let n = (*n as usize).min((budget_kb.saturating_sub(used_kb)) / per);
                    if n == 0 {
                        continue;
                    }
                    used_kb += n * per;
                    ops.push(Op::Chain { m, root, n: (n - 1) as u8, extra, sem: *sem });
                    if *weakish {
                        ops.push(Op::Alloc { m, root: root.wrapping_add(1), extra: 16, nrefs: 2, kind: 2, sem: 0, align_log: 0, offset_w: 0, referent: root });
                    }
                    if *fin {
                        ops.push(Op::AddFinalizer { m, root });
                    }
                }
                ops.push(Op::Churn { m, kb: (heap_kb / 8) as u16, size: 64 + (cyc % 5) as u16 * 24 });
                if cyc % 3 == 1 {
                    // allocation attempts that are turned away: two half-heap requests that must not wait for a
                    // GC (`at_safepoint: false`); the second cannot fit.  Whatever they reserved is given back.
                    ops.push(Op::AllocOpts { m, root: 240, size_class: 4, sem: 0, overcommit: false, at_safepoint: false, allow_oom: false });
                    ops.push(Op::AllocOpts { m, root: 241, size_class: 4, sem: 0, overcommit: false, at_safepoint: false, allow_oom: false });
                    ops.push(Op::AllocOpts { m, root: 242, size_class: 2, sem: 0, overcommit: false, at_safepoint: false, allow_oom: false });
                }
                if survive_first || cyc % 2 == 0 {
                    // everything survives one collection before it is dropped
                    ops.push(Op::Gc { m, force: true, exhaustive: cyc % 4 == 0 });
                }
                ops.push(Op::DropAllRoots);
                ops.push(Op::Gc { m: 0, force: true, exhaustive: true });
                ops.push(Op::PopFinalized { m: 0, root: 200, n: 7 });
                ops.push(Op::DropAllRoots);
                ops.push(Op::Gc { m: 0, force: true, exhaustive: true });
                if mutators > 1 && cyc % 5 == 4 {
                    // mutator churn: destroy and re-bind the second mutator
                    ops.push(Op::DestroyMutator { m: 64 });
                    ops.push(Op::BindMutator { m: 64 });
                }
            }
            let mut opts: Vec<(String, String)> = vec![("full_heap_system_gc".into(), "true".into())];
            if (v >> 2) % 2 == 0 {
                // lazy sweeping (the default without `vo_bit`)
                opts.push(("__build".to_string(), "base".to_string()));
            }
            Case { plan: plan.to_string(), variant: variant_for(plan, v), heap_kb, dyn_heap: None, workers, mutators, opts, copy_spin: 0, focus: "C09".into(), ops }
        })
        .boxed()
}

/// C10: fill the heap with reachable data, then probe alloc_with_options.
pub fn c10_case() -> BoxedStrategy<Case> {
    let plans = &COLLECTING_PLANS;
    let mix = Mix { alloc_opts: 40, churn_weight: 0, gc_weight: 1, big: false, sems: false, region_copy: false, old_young: 0, mutator_ops: false, ..Mix::BASIC };
    // Heaps of at least 9 MiB: every contiguous space reserves max(2 x heap, 8 MiB) of virtual memory minus one
    // chunk for its free-list table, so in smaller heaps a copying GC over a nearly full heap can run out
    // of *virtual* space (known finding C01 panic@src/policy/space.rs:246, which is not what C10 is about).
    (0..plans.len(), any::<u8>(), 1u8..4, 9000u32..20000, 30u8..90, prop::collection::vec(op(mix), 10..50), prop_oneof![2 => Just(0u8), 1 => 10u8..70])
        .prop_map(move |(pi, v, workers, heap_kb, fill_pct, tail, dyn_min_pct)| {
            let plan = plans[pi];
            // StickyImmix copies every young survivor in a nursery GC: keep the reachable young volume below
            // half of the heap so that the copies fit into the reserved extent (same known finding).
            let fill_pct = if plan == "StickyImmix" { fill_pct.min(45) } else { fill_pct };
            let mut ops = vec![];
            // reachable fill: chains of ~1 KiB objects
            let target_kb = heap_kb as usize * fill_pct as usize / 100;
            let extra: u16 = if heap_kb > 12000 { 2008 } else { 984 };
            let per_chain_kb = 48 * (extra as usize + 40) / 1024;
            let chains = (target_kb / per_chain_kb).min(220);
            for k in 0..chains {
                ops.push(Op::Chain { m: 0, root: ((k * 5) % 240) as u8, n: 47, extra, sem: 0 });
                if k % 5 == 4 {
                    // link chains together so that few roots keep everything alive
                    ops.push(Op::Write { m: 0, src: ((k * 5) % 240) as u8, field: 255, dm: 0, dst: (((k - 1) * 5) % 240) as u8, null: false });
                }
            }
            ops.extend(tail);
            let mut opts = vec![];
            if v % 4 == 1 {
                // a quarter of the cases end with a burst of half-heap requests that over-commit and may not
                // wait for a GC, all kept reachable: the space's address range (2 x heap) runs out while the
                // collector has no say, and each further request must just fail
                opts.push(("__overcommit_unbounded".to_string(), "1".to_string()));
                for i in 0..10u8 {
                    ops.push(Op::AllocOpts { m: 0, root: 240 + i, size_class: 4, sem: 0, overcommit: true, at_safepoint: false, allow_oom: i % 2 == 0 });
                }
                ops.push(Op::DropAllRoots);
                ops.push(Op::Gc { m: 0, force: true, exhaustive: true });
            }
            // a third of the cases run with DynamicHeapSize(min, max = heap_kb): the current heap size then
            // starts below the maximum, and "larger than the maximum heap" differs from "larger than the heap now"
            let dyn_heap = if dyn_min_pct > 0 { Some(((heap_kb as u64 * dyn_min_pct as u64 / 100) as u32, heap_kb)) } else { None };
            Case { plan: plan.to_string(), variant: variant_for(plan, v), heap_kb, dyn_heap, workers, mutators: 1, opts, copy_spin: 0, focus: "C10".into(), ops }
        })
        .boxed()
}

/// C12: ConcurrentImmix with the heap sized so that allocation crosses the concurrent trigger.
pub fn c12_case() -> BoxedStrategy<Case> {
    let mix = Mix { churn_weight: 3, gc_weight: 1, old_young: 6, big: false, weak: true, hide: 6, weak_pairs: 2, marking_window: 10, ..Mix::BASIC };
    (any::<u8>(), 1u8..5, 1u8..3, 3000u32..12000, plan_opts("ConcurrentImmix"), prop_oneof![1 => Just(0u32), 2 => 20u32..200, 2 => 200u32..2000], prop::collection::vec(op(mix), 30..160))
        .prop_map(|(v, workers, mutators, heap_kb, mut opts, scan_delay, ops)| {
            if scan_delay > 0 {
                // stall scan_object while mutators run: concurrent marking then overlaps with many mutator ops
                opts.push(("__scan_delay".to_string(), scan_delay.to_string()));
            }
            Case { plan: "ConcurrentImmix".into(), variant: variant_for("ConcurrentImmix", v), heap_kb, dyn_heap: None, workers, mutators, opts, copy_spin: 0, focus: "C12".into(), ops }
        })
        .boxed()
}

/// C34: Immix family with many GCs and objects straddling lines.
pub fn c34_case() -> BoxedStrategy<Case> {
    const P: [&str; 4] = ["Immix", "GenImmix", "StickyImmix", "ConcurrentImmix"];
    let mix = Mix { gc_weight: 22, churn_weight: 3, big: true, sems: true, gc_loop: 3, dense: 3, ..Mix::BASIC };
    (0..P.len())
        .prop_flat_map(move |pi| {
            let plan = P[pi];
            (Just(plan), any::<u8>(), heap_kb(), 1u8..5, plan_opts(plan), prop::collection::vec(op(mix), 30..160))
        })
        .prop_map(|(plan, v, heap_kb, workers, opts, ops)| Case { plan: plan.to_string(), variant: variant_for(plan, v), heap_kb, dyn_heap: None, workers, mutators: 1, opts, copy_spin: 0, focus: "C34".into(), ops })
        .boxed()
}
