//! E1 driver side: run one case in a `shadowvm` subprocess and map its verdict.

use crate::runner::{KnownFinding, Outcome};
use crate::shadow::case::*;
use std::io::{Read, Write};
use std::process::{Command, Stdio};
use std::time::{Duration, Instant};

pub enum CaseResult {
    Verdict(Verdict),
    Crash { signal: i32, stderr: String },
    Timeout,
    Broken(String),
}

pub fn shadowvm_path() -> std::path::PathBuf {
    let exe = std::env::current_exe().unwrap();
    exe.parent().unwrap().join("shadowvm")
}

/// The worker binary for a case: the pseudo option `__build:base` selects the build without `vo_bit`.
pub fn worker_for(case: &Case) -> std::path::PathBuf {
    if case.opts.iter().any(|(k, v)| k == "__build" && v == "base") {
        // sibling build directory of the one this driver runs from: <harness>/target-base/release/shadowvm
        let exe = std::env::current_exe().unwrap();
        let harness = exe.parent().and_then(|p| p.parent()).and_then(|p| p.parent()).map(|p| p.to_path_buf()).unwrap_or_else(|| std::path::PathBuf::from(format!("{}/harness", crate::runner::VERIF_DIR)));
        harness.join("target-base/release/shadowvm")
    } else {
        shadowvm_path()
    }
}

pub fn run_case(case: &Case, timeout_s: u64) -> CaseResult {
    let txt = serde_json::to_string(case).unwrap();
    let mut child = match Command::new(worker_for(case)).arg("-").stdin(Stdio::piped()).stdout(Stdio::piped()).stderr(Stdio::piped()).spawn() {
        Ok(c) => c,
        Err(e) => return CaseResult::Broken(format!("spawn: {}", e)),
    };
    {
        let mut stdin = child.stdin.take().unwrap();
        let _ = stdin.write_all(txt.as_bytes());
    }
    let start = Instant::now();
    let mut sleep_us = 300;
    let status = loop {
        match child.try_wait() {
            Ok(Some(st)) => break Some(st),
            Ok(None) => {
                if start.elapsed() > Duration::from_secs(timeout_s) {
                    let _ = child.kill();
                    let _ = child.wait();
                    break None;
                }
                std::thread::sleep(Duration::from_micros(sleep_us));
                if sleep_us < 5000 {
                    sleep_us += 300;
                }
            }
            Err(e) => return CaseResult::Broken(format!("wait: {}", e)),
        }
    };
    let mut out = String::new();
    let mut err = String::new();
    if let Some(mut o) = child.stdout.take() {
        let _ = o.read_to_string(&mut out);
    }
    if let Some(mut e) = child.stderr.take() {
        let _ = e.read_to_string(&mut err);
    }
    if let Some(line) = out.lines().rev().find(|l| l.starts_with("VERDICT ")) {
        if let Ok(v) = serde_json::from_str::<Verdict>(&line[8..]) {
            return CaseResult::Verdict(v);
        }
    }
    match status {
        None => CaseResult::Timeout,
        Some(st) => {
            use std::os::unix::process::ExitStatusExt;
            if let Some(sig) = st.signal() {
                let tail: String = err.lines().rev().take(6).collect::<Vec<_>>().join(" | ");
                CaseResult::Crash { signal: sig, stderr: tail }
            } else {
                let tail: String = err.lines().rev().take(6).collect::<Vec<_>>().join(" | ");
                CaseResult::Broken(format!("exit {:?} without verdict: {}", st.code(), tail))
            }
        }
    }
}

/// Map a case result to an outcome for `property`.  Violations of other
/// properties are left to those properties' own checks.
///
/// Known findings are matched structurally: signature (for crashes the panic location) + plan.
/// A crash of a saved input carrying the marker `__allow:<sig>` of a schedule-dependent known finding
/// is attributed to that finding (only saved replay inputs carry such markers).
pub fn outcome_for_case(case: &Case, property: &str, also: &[&str], res: CaseResult, known: &[KnownFinding], nontrivial: &dyn Fn(&Verdict) -> (bool, Vec<&'static str>)) -> Outcome {
    let is_known = |viol_prop: &str, sig: &str| known.iter().any(|k| k.covers(property, viol_prop, sig, &case.plan));
    // saved inputs of schedule-dependent known findings carry `__allow:<signature>`: however the finding
    // manifests in a given run (oracle verdict or a crash inside mmtk), it is attributed to that finding
    let markers: Vec<String> = case.opts.iter().filter(|(k, _)| k == "__allow").map(|(_, v)| v.clone()).collect();
    for sig in &markers {
        let crashed = match &res {
            CaseResult::Crash { .. } => true,
            CaseResult::Verdict(v) => v.violations.iter().any(|x| x.property == "CRASH"),
            _ => false,
        };
        if crashed && is_known(property, sig) {
            return Outcome::Known { signature: sig.clone(), nontrivial: false, labels: vec![] };
        }
    }
    match res {
        CaseResult::Verdict(v) => {
            let (nt, labels) = nontrivial(&v);
            for viol in &v.violations {
                let mine = viol.property == property || also.contains(&viol.property.as_str()) || viol.property == "CRASH";
                if !mine {
                    continue;
                }
                let sig = if viol.property == "CRASH" { crash_signature(&viol.detail) } else { viol.signature.clone() };
                if is_known(&viol.property, &sig) {
                    return Outcome::Known { signature: sig, nontrivial: nt, labels };
                }
                return Outcome::Fail { msg: format!("[{}:{}] step {}: {}", viol.property, sig, viol.step, viol.detail) };
            }
            Outcome::Pass { nontrivial: nt, labels }
        }
        CaseResult::Crash { signal, stderr } => {
            let sig = format!("signal-{}", signal);
            if is_known(property, &sig) {
                return Outcome::Known { signature: sig, nontrivial: false, labels: vec![] };
            }
            Outcome::Fail { msg: format!("[CRASH:{}] subprocess died with signal {}: {}", sig, signal, stderr) }
        }
        CaseResult::Timeout => Outcome::Inconclusive { msg: "case watchdog expired".into() },
        CaseResult::Broken(m) => Outcome::Inconclusive { msg: m },
    }
}

/// Stable signature of a panic: file:line of the panic location.
pub fn crash_signature(detail: &str) -> String {
    if let Some(p) = detail.find("panicked at ") {
        let rest = &detail[p + 12..];
        let loc: String = rest.chars().take_while(|c| *c != '\n' && *c != ' ').collect();
        let loc = loc.trim_end_matches(':').to_string();
        // drop the column
        let parts: Vec<&str> = loc.split(':').collect();
        if parts.len() >= 2 {
            // repository-relative path, wherever the tree is checked out
            let file = match parts[0].find("/src/") {
                Some(i) => &parts[0][i + 1..],
                None => parts[0].trim_start_matches("/repo/"),
            };
            return format!("panic@{}:{}", file, parts[1]);
        }
        return format!("panic@{}", loc);
    }
    "panic".to_string()
}

pub fn cv(v: &Verdict, k: &str) -> u64 {
    v.counters.get(k).copied().unwrap_or(0)
}
