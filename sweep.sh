#!/bin/bash
# usage: sweep.sh <seed>...   runs every registered check's quick tier for each seed without touching evidence;
# prints one line per run; used to look for flakiness on the unchanged tree
# in a `vp run --with-repo` snapshot build against the snapshot of /repo, not /repo itself
if [ -n "${VP_RUN_REPO:-}" ]; then sed -i "s#path = \"/repo\"#path = \"$VP_RUN_REPO\"#" harness/Cargo.toml; cp $VP_RUN_REPO/Cargo.lock harness/Cargo.lock.repo 2>/dev/null; fi
ids=$(python3 -c "import json;print(' '.join(c['property_id'] for c in json.load(open('MANIFEST.json'))['checks']))")
export VERIF_NO_EVIDENCE=1 VERIF_REPLAY_DIR=${VERIF_REPLAY_DIR:-/tmp/sweep-replays}
mkdir -p $VERIF_REPLAY_DIR
for s in "$@"; do
  for id in $ids; do
    start=$(date +%s)
    out=$(VERIF_SEED=$s ./check $id --tier quick 2>&1); code=$?
    echo "seed=$s $id exit=$code wall=$(( $(date +%s) - start ))s $(echo "$out" | grep -m1 -E '^VIOLATION|^INCONCLUSIVE|^failure' | cut -c1-200)"
  done
done
