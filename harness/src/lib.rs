pub mod checks;
pub mod e1;
pub mod gen;
pub mod runner;
pub mod shadow;
