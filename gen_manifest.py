#!/usr/bin/env python3
"""Regenerates MANIFEST.json from the table below (kept in one place so that it is always valid)."""
import json, subprocess
hook_commits = subprocess.run(["git","-C","/repo","log","--format=%h %s"],capture_output=True,text=True).stdout.splitlines()
hooks=[l.split()[0] for l in hook_commits if "verif hooks" in l]
E1="shadowvm"
checks = {
 # id: (engine, technique, level text, level note, design ref)
 "C01": (E1,"property-based testing: generated mutator programs vs. shadow-heap reference model (proptest, shrinking)","Randomized exploration: generated programs x 11 plans x 4 metadata layouts x 1-4 workers, each run against real MMTk in its own process; after every pause a lock-step walk compares the real heap with an out-of-heap shadow graph (identity, size, payload, slots). Finds violations, never proves absence.","Trusts the ShadowVM binding and the shadow model; schedules of GC workers are whatever the OS produces; heaps <= 40 MiB.","6/C01"),
 "C23": ("unit","property-based testing: operation histories vs. bit-exact reference model (proptest)","Randomized exploration of header specs (offset -64..127, widths 1-64, masks) x accessor histories against a 256-bit model checked after every operation.","Single-threaded histories only (races are C18).","6/C23"),
 "C26": ("unit","stateful property-based testing: alloc/free histories vs. run-map model (proptest)","Randomized exploration of IntArrayFreeList histories incl. child lists and uncoalescable boundaries against an ordered run-map model.","RawMemoryFreeList growth is C27.","6/C26"),
 "C33": ("unit","property-based testing: arithmetic vs. search / u128 oracle (proptest)","Randomized + boundary-biased exploration of align_allocation (5 MIN/MAX alignment variants) and rounding helpers against independent oracles.","Addresses >= 2^63 are outside the domain (signed Address + ByteOffset arithmetic).","6/C33"),
 "C36": ("unit","stateful property-based testing: treadmill histories vs. four-set model (proptest)","Randomized exploration of add/flip/copy/collect histories following the LOS protocol against a set model; exactly-one-set membership checked after every step.","Protocol-conformant histories only.","6/C36"),
 "C40": ("unit","property-based testing: iterator output vs. maximal-run partition oracle (proptest)","Randomized exploration of sequences x key functions x partial consumption against an independent partition.","","6/C40"),
}
props=[json.loads(l) for l in open("/verif/properties.jsonl")]
ids=[p["id"] for p in props]
m={
 "version":1,
 "setup_cmd":"cd /verif/harness && CARGO_NET_OFFLINE=true cargo build --release --offline --features vo_bit --target-dir target-vo",
 "hooks":{"guard":"--cfg mmtk_verif","enable":"RUSTFLAGS='--cfg mmtk_verif' (set in /verif/harness/.cargo/config.toml); hooks live in /repo/src/verif.rs and a few #[cfg(mmtk_verif)] items","baseline_off_cmd":"cd /repo && cargo nextest run --workspace --no-fail-fast --tool-config-file pb:/w/lib/nextest.toml --profile pb --test-threads 8 --offline","source_commits":hooks,"add_only":True},
 "engines":[
  {"name":"shadowvm","path":"harness/src/shadow","serves_properties":[i for i in ids if checks.get(i,("",))[0]==E1],"kind_free_text":"whole-system engine: generated case -> one process with real MMTk + ShadowVM binding + shadow heap oracle"},
  {"name":"unit","path":"harness/src/checks","serves_properties":[i for i in ids if checks.get(i,("",))[0]=="unit"],"kind_free_text":"in-process proptest properties over components reached through cfg(mmtk_verif) hooks, with reference models"},
 ],
 "checks":[],
 "notes":"Every check is `./check <ID> --tier quick|thorough`; it rebuilds the harness (and mmtk-core from /repo's working tree, hooks on) first. exit 0 held / 1 VIOLATION / 2 inconclusive. Saved inputs under corpus/<ID>/ are replayed first. Known findings: known_findings.json.",
 "not_applicable":[],
}
for i in ids:
    if i in checks:
        eng,tech,text,note,ref=checks[i]
        m["checks"].append({"property_id":i,"quick_cmd":f"./check {i} --tier quick","thorough_cmd":f"./check {i} --tier thorough","evidence_file":f"/verif/evidence/{i}.json","replay_cmd_template":f"./check {i} --replay {{path}}","engine":eng,"level_claimed":{"category":"exploration","text":text,"design_ref":"DESIGN.md section "+ref},"level_note":note or "Trusts the harness's reference model.","technique":tech})
    else:
        m["not_applicable"].append({"property_id":i,"reason":"check not yet registered in this commit (work in progress; see DESIGN.md section 6 for the planned check)"})
json.dump(m,open("/verif/MANIFEST.json","w"),indent=1)
print(len(m["checks"]),"checks,",len(m["not_applicable"]),"not yet registered")
