//! Unit/model property checks that need no process-global MMTk state:
//! C40 (revisitable group-by), C33 (alignment arithmetic), C23 (header metadata),
//! C26 (free lists), C36 (treadmill).

use super::Entry;
use crate::runner::{Check, Env, Outcome};
use crate::shadow::vm::ShadowVM;
use crate::{vensure, vfail};
use mmtk::util::Address;
use proptest::prelude::*;
use serde::{Deserialize, Serialize};
use std::sync::atomic::Ordering;

pub fn entries() -> Vec<Entry> {
    vec![
        Entry { id: "C40", rule: "cases = generated sequences (length 0..300, run-structured) x key function x per-group consumption limits, also the flattened slice-of-slices form; oracle = independent maximal-run partition; non-trivial = >= 3 groups with >= 1 group longer than 1; distinct by structural hash", run: c40 },
        Entry { id: "C33", rule: "cases = (region, alignment, offset, size) for align_allocation under VM variants with MIN/MAX alignment (8,16),(8,64),(8,8),(4,8),(4,64) and inputs of the rounding helpers, uniform + boundary biased, non-overflowing by construction; oracle = linear search for the least aligned address / closed-form arithmetic in u128; non-trivial = alignment > MIN and offset != 0 (align_allocation) or value not already aligned (helpers)", run: c33 },
        Entry { id: "C23", rule: "cases = header spec (bit offset -64..127, width 1..7 within a byte or 8/16/32/64 aligned, optional mask) x 32 random surrounding bytes x history of 1..40 accessor calls; oracle = bit-exact model of the 256-bit buffer; non-trivial = surrounding bits non-zero and (field not byte aligned or negative offset or masked)", run: c23 },
        Entry { id: "C26", rule: "cases = IntArrayFreeList(units 1..600, grain, heads 1..4) incl. child lists, histories of 1..300 alloc/alloc_from_unit/free/set_uncoalescable ops resolved against the model; oracle = ordered run map; non-trivial = >=1 split and >=1 two-sided coalesce and >=1 failure", run: c26 },
        Entry { id: "C36", rule: "cases = treadmill histories of add/flip/copy/collect consistent with the LOS protocol (prepare=flip, trace=copy, release=collect); oracle = four-set model; non-trivial = >= 2 GCs with both survivors and garbage", run: c36 },
    ]
}

// ------------------------------------------------------------------ C40

#[derive(Serialize, Deserialize, Clone, Debug)]
struct GroupCase {
    items: Vec<u8>,
    keyfn: u8,
    k: u8,
    take: Vec<u16>,
    nested_cuts: Vec<u16>,
}

fn keyf(keyfn: u8, k: u8, x: u8) -> u64 {
    match keyfn % 4 {
        0 => x as u64,
        1 => (x % k.max(1)) as u64,
        2 => 7,
        _ => (x >= k) as u64,
    }
}

fn run_items() -> impl Strategy<Value = Vec<u8>> {
    // run-structured: (value, repeat) pairs flattened
    prop::collection::vec((0u8..6, 1usize..12), 0..40).prop_map(|runs| {
        let mut v = vec![];
        for (x, n) in runs {
            for _ in 0..n {
                v.push(x);
            }
        }
        v.truncate(300);
        v
    })
}

fn c40(c: &mut Check) {
    let n = c.tier.pick(60_000, 3_000_000);
    c.section(
        "group-by",
        n,
        || (prop_oneof![3 => run_items(), 1 => prop::collection::vec(any::<u8>(), 0..300)], any::<u8>(), 1u8..9, prop::collection::vec(prop_oneof![2 => Just(u16::MAX), 1 => 0u16..6], 0..12), prop::collection::vec(0u16..300, 0..5)).prop_map(|(items, keyfn, k, take, nested_cuts)| GroupCase { items, keyfn, k, take, nested_cuts }),
        |case: &GroupCase, _env: &Env| {
            let key = |x: &u8| keyf(case.keyfn, case.k, *x);
            // oracle: maximal runs
            let mut runs: Vec<(u64, Vec<u8>)> = vec![];
            for x in &case.items {
                let k = key(x);
                match runs.last_mut() {
                    Some((lk, v)) if *lk == k => v.push(*x),
                    _ => runs.push((k, vec![*x])),
                }
            }
            let take: Vec<usize> = case.take.iter().map(|t| if *t == u16::MAX { usize::MAX } else { *t as usize }).collect();
            let got = mmtk::verif::group_by_runs(&case.items, key, &take);
            vensure!(got.len() == runs.len(), "number of groups {} != {} for {:?}", got.len(), runs.len(), case.items);
            for (i, ((gk, glen, gitems), (rk, ritems))) in got.iter().zip(runs.iter()).enumerate() {
                vensure!(*gk == *rk, "group {} key {} != {}", i, gk, rk);
                vensure!(*glen == ritems.len(), "group {} reported len {} != {}", i, glen, ritems.len());
                vensure!(*glen > 0, "group {} empty", i);
                let lim = take.get(i).copied().unwrap_or(usize::MAX).min(ritems.len());
                vensure!(gitems[..] == ritems[..lim], "group {} items {:?} != {:?} (consumed {} of the group)", i, gitems, &ritems[..lim], lim);
            }
            // full consumption: concatenation equals the input
            let full = mmtk::verif::group_by_runs(&case.items, key, &[]);
            let concat: Vec<u8> = full.iter().flat_map(|g| g.2.clone()).collect();
            vensure!(concat == case.items, "concatenation of groups differs from the input");
            for w in full.windows(2) {
                vensure!(w[0].0 != w[1].0, "adjacent groups share key {}", w[0].0);
            }
            // nested (slice of slices) form
            let mut cuts: Vec<usize> = case.nested_cuts.iter().map(|c| (*c as usize).min(case.items.len())).collect();
            cuts.sort();
            let mut nested: Vec<Vec<u8>> = vec![];
            let mut prev = 0;
            for cpos in cuts {
                nested.push(case.items[prev..cpos].to_vec());
                prev = cpos;
            }
            nested.push(case.items[prev..].to_vec());
            let gn = mmtk::verif::group_by_runs_nested(&nested, key);
            vensure!(gn.len() == runs.len(), "nested: number of groups {} != {}", gn.len(), runs.len());
            for (g, r) in gn.iter().zip(runs.iter()) {
                vensure!(g.0 == r.0 && g.1 == r.1.len() && g.2 == r.1, "nested: group mismatch {:?} vs {:?}", g, r);
            }
            let nt = runs.len() >= 3 && runs.iter().any(|r| r.1.len() > 1);
            let mut l = vec![];
            if case.items.is_empty() {
                l.push("empty");
            }
            if runs.len() == 1 {
                l.push("single_run");
            }
            if take.iter().any(|t| *t != usize::MAX) {
                l.push("partial_consumption");
            }
            Outcome::pass_l(nt, l)
        },
    );
}

// ------------------------------------------------------------------ C33

#[derive(Serialize, Deserialize, Clone, Debug)]
struct AlignCase {
    vm: u8,
    region: u64,
    align_log: u8,
    offset_units: u16,
    size_units: u32,
}

fn biased_u64() -> impl Strategy<Value = u64> {
    prop_oneof![
        3 => any::<u64>(),
        2 => (0u32..64, 0u64..1024, any::<bool>()).prop_map(|(s, d, neg)| { let b = 1u64 << s; if neg { b.wrapping_sub(d) } else { b.wrapping_add(d) } }),
        1 => 0u64..70000,
        1 => (0u64..70000).prop_map(|d| u64::MAX - d),
    ]
}

fn check_align<const V: usize>(case: &AlignCase) -> Outcome {
    use mmtk::verif::alloc::{align_allocation, align_allocation_no_fill, get_maximum_aligned_size};
    use mmtk::vm::VMBinding;
    let min = <ShadowVM<V> as VMBinding>::MIN_ALIGNMENT;
    let max = <ShadowVM<V> as VMBinding>::MAX_ALIGNMENT;
    let min_log = min.trailing_zeros() as u8;
    let max_log = max.trailing_zeros() as u8;
    let align = 1usize << (min_log + case.align_log % (max_log - min_log + 1));
    let offset = (case.offset_units as usize) * min;
    // region: any MIN-aligned non-zero address, not overflowing when padded
    let mut region = (case.region as usize) & !(min - 1);
    if region == 0 {
        region = min;
    }
    // Addresses live in the lower half of the address space on every supported platform;
    // `Address + ByteOffset` is signed arithmetic (overflow-checked in debug builds), so regions at
    // or above 2^63 are outside the domain (observation recorded in DESIGN.md).
    let top = (isize::MAX as usize) - 2 * max - offset;
    if region > top {
        region = top & !(min - 1);
    }
    // oracle by search
    let mut expect = region;
    while (expect.wrapping_add(offset)) % align != 0 {
        expect += min;
        if expect - region > 2 * max {
            vfail!("oracle failed to find an aligned address");
        }
    }
    let got = align_allocation_no_fill::<ShadowVM<V>>(unsafe { Address::from_usize(region) }, align, offset).as_usize();
    vensure!(got == expect, "align_allocation_no_fill(region={:#x}, align={}, offset={}) = {:#x}, least aligned address is {:#x} (MIN={}, MAX={})", region, align, offset, got, expect, min, max);
    let size = (case.size_units as usize) * min;
    let maxsize = get_maximum_aligned_size::<ShadowVM<V>>(size, align);
    vensure!(got - region + size <= maxsize, "padding {} + size {} exceeds get_maximum_aligned_size {} (align {}, MIN {})", got - region, size, maxsize, align, min);
    // filling variant on a real buffer: only [region, r) is written, with ALIGNMENT_VALUE
    let mut buf = vec![0x11u8; 4 * max + 64];
    let base = (buf.as_mut_ptr() as usize + max) & !(max - 1);
    // choose a start inside the buffer with the same residue as `region` modulo max
    let start = base + (region % max);
    let r = align_allocation::<ShadowVM<V>>(unsafe { Address::from_usize(start) }, align, offset).as_usize();
    let mut e2 = start;
    while (e2 + offset) % align != 0 {
        e2 += min;
    }
    vensure!(r == e2, "align_allocation({:#x},{},{}) = {:#x}, expected {:#x}", start, align, offset, r, e2);
    let b0 = buf.as_ptr() as usize;
    for (i, b) in buf.iter().enumerate() {
        let a = b0 + i;
        let in_gap = a >= start && a < r;
        let want = if in_gap { <ShadowVM<V> as VMBinding>::ALIGNMENT_VALUE } else { 0x11 };
        vensure!(*b == want, "byte at {:#x} is {:#x}, expected {:#x} (gap [{:#x},{:#x}))", a, b, want, start, r);
    }
    Outcome::pass_l(align > min && offset % align != 0, vec![])
}

#[derive(Serialize, Deserialize, Clone, Debug)]
struct RoundCase {
    val: u64,
    align_log: u8,
    bits: u8,
}

fn c33(c: &mut Check) {
    let n = c.tier.pick(120_000, 6_000_000);
    c.section(
        "align_allocation",
        n,
        || (0u8..5, biased_u64(), 0u8..8, prop_oneof![4 => 0u16..16, 1 => 0u16..2000], 0u32..10000).prop_map(|(vm, region, align_log, offset_units, size_units)| AlignCase { vm, region, align_log, offset_units, size_units }),
        |case: &AlignCase, _| match case.vm % 5 {
            0 => check_align::<0>(case),
            1 => check_align::<1>(case),
            2 => check_align::<3>(case),
            3 => check_align::<4>(case),
            _ => check_align::<5>(case),
        },
    );
    c.section(
        "rounding",
        n,
        || (biased_u64(), 0u8..48, 0u8..40).prop_map(|(val, align_log, bits)| RoundCase { val, align_log, bits }),
        |case: &RoundCase, _| {
            use mmtk::util::conversions::*;
            let align = 1u128 << case.align_log;
            let val = case.val as usize;
            let v = val as u128;
            // raw_align_down never overflows
            let down = (v / align) * align;
            vensure!(raw_align_down(val, align as usize) as u128 == down, "raw_align_down({:#x},{:#x})", val, align);
            vensure!(raw_is_aligned(val, align as usize) == (v % align == 0), "raw_is_aligned({:#x},{:#x})", val, align);
            let up = ((v + align - 1) / align) * align;
            let mut nt = v % align != 0;
            if up <= usize::MAX as u128 {
                vensure!(raw_align_up(val, align as usize) as u128 == up, "raw_align_up({:#x},{:#x}) = {:#x}, expected {:#x}", val, align, raw_align_up(val, align as usize), up);
                let a = unsafe { Address::from_usize(val) };
                vensure!(a.align_up(align as usize).as_usize() as u128 == up, "Address::align_up");
                vensure!(a.align_down(align as usize).as_usize() as u128 == down, "Address::align_down");
                vensure!(a.is_aligned_to(align as usize) == (v % align == 0), "Address::is_aligned_to");
            } else {
                nt = false;
            }
            // pages / chunks
            let page = 4096u128;
            if v + page - 1 <= usize::MAX as u128 {
                vensure!(bytes_to_pages_up(val) as u128 == (v + page - 1) / page, "bytes_to_pages_up({})", val);
            }
            let chunk = 1u128 << 22;
            if v + chunk - 1 <= usize::MAX as u128 {
                vensure!(bytes_to_chunks_up(val) as u128 == (v + chunk - 1) / chunk, "bytes_to_chunks_up({})", val);
                let a = unsafe { Address::from_usize(val) };
                vensure!(chunk_align_up(a).as_usize() as u128 == ((v + chunk - 1) / chunk) * chunk, "chunk_align_up");
            }
            {
                let a = unsafe { Address::from_usize(val) };
                vensure!(chunk_align_down(a).as_usize() as u128 == (v / chunk) * chunk, "chunk_align_down");
                vensure!(page_align_down(a).as_usize() as u128 == (v / page) * page, "page_align_down");
                vensure!(address_to_chunk_index(a) as u128 == v / chunk, "address_to_chunk_index");
                vensure!(is_page_aligned(a) == (v % page == 0), "is_page_aligned");
            }
            if v / chunk < (1u128 << 42) {
                let idx = (v / chunk) as usize;
                vensure!(chunk_index_to_address(idx).as_usize() as u128 == (idx as u128) * chunk, "chunk_index_to_address");
            }
            if v <= (usize::MAX >> 12) as u128 {
                vensure!(pages_to_bytes(val) as u128 == v * page, "pages_to_bytes");
            }
            let bits = case.bits as u32;
            let add = (1u128 << bits) - 1;
            if v + add <= usize::MAX as u128 {
                vensure!(rshift_align_up(val, bits as usize) as u128 == (v + add) >> bits, "rshift_align_up({},{}) = {}, expected {}", val, bits, rshift_align_up(val, bits as usize), (v + add) >> bits);
            }
            Outcome::pass_l(nt, vec![])
        },
    );
}

// ------------------------------------------------------------------ C23

#[derive(Serialize, Deserialize, Clone, Debug)]
enum HOp {
    Load { atomic: bool },
    Store { val: u64, atomic: bool },
    Cas { use_current: bool, stale: u64, new: u64 },
    FetchAdd(u64),
    FetchSub(u64),
    FetchAnd(u64),
    FetchOr(u64),
    FetchUpdate { new: Option<u64> },
}

#[derive(Serialize, Deserialize, Clone, Debug)]
struct HeaderCase {
    /// width class: 0..7 => 1..7 bits (sub-byte), 7 => 8, 8 => 16, 9 => 32, 10 => 64
    width_sel: u8,
    /// position selector (bit position inside the 256-bit window, adjusted for legality)
    pos: u16,
    mask: Option<u64>,
    bytes: Vec<u8>,
    ops: Vec<HOp>,
}

fn hop() -> impl Strategy<Value = HOp> {
    prop_oneof![
        2 => any::<bool>().prop_map(|atomic| HOp::Load { atomic }),
        3 => (any::<u64>(), any::<bool>()).prop_map(|(val, atomic)| HOp::Store { val, atomic }),
        3 => (any::<bool>(), any::<u64>(), any::<u64>()).prop_map(|(use_current, stale, new)| HOp::Cas { use_current, stale, new }),
        1 => any::<u64>().prop_map(HOp::FetchAdd),
        1 => any::<u64>().prop_map(HOp::FetchSub),
        1 => any::<u64>().prop_map(HOp::FetchAnd),
        1 => any::<u64>().prop_map(HOp::FetchOr),
        2 => prop::option::of(any::<u64>()).prop_map(|new| HOp::FetchUpdate { new }),
    ]
}

/// read `bits` bits at bit position `pos` (little endian bit numbering) from the 32-byte window
fn model_get(buf: &[u8; 32], pos: usize, bits: usize) -> u64 {
    let mut v = 0u64;
    for i in 0..bits {
        let p = pos + i;
        if (buf[p / 8] >> (p % 8)) & 1 == 1 {
            v |= 1 << i;
        }
    }
    v
}
fn model_set(buf: &mut [u8; 32], pos: usize, bits: usize, val: u64) {
    for i in 0..bits {
        let p = pos + i;
        let bit = ((val >> i) & 1) as u8;
        buf[p / 8] = (buf[p / 8] & !(1 << (p % 8))) | (bit << (p % 8));
    }
}

fn width_mask(bits: usize) -> u64 {
    if bits == 64 {
        u64::MAX
    } else {
        (1u64 << bits) - 1
    }
}

macro_rules! hdr_ops {
    ($t:ty, $spec:expr, $header:expr, $case:expr, $model:expr, $pos:expr, $bits:expr, $real:expr, $known:expr, $known_hit:expr) => {{
        let spec = $spec;
        let header: Address = $header;
        let bits: usize = $bits;
        let pos: usize = $pos;
        let wm = width_mask(bits);
        let mask_t: Option<$t> = $case.mask.map(|m| (m & wm) as $t);
        let fmask: u64 = mask_t.map(|m| m as u64).unwrap_or(wm);
        for (i, op) in $case.ops.iter().enumerate() {
            let cur = model_get($model, pos, bits);
            match op {
                HOp::Load { atomic } => {
                    let got: $t = if *atomic { spec.load_atomic::<$t>(header, mask_t, Ordering::SeqCst) } else { unsafe { spec.load::<$t>(header, mask_t) } };
                    vensure!(got as u64 == cur & fmask, "op {}: load returned {:#x}, field holds {:#x} (mask {:#x})", i, got, cur, fmask);
                }
                HOp::Store { val, atomic } => {
                    let v = (*val & wm) as $t;
                    if *atomic {
                        spec.store_atomic::<$t>(header, v, mask_t, Ordering::SeqCst);
                    } else {
                        unsafe { spec.store::<$t>(header, v, mask_t) };
                    }
                    model_set($model, pos, bits, (cur & !fmask) | (v as u64 & fmask));
                }
                HOp::Cas { use_current, stale, new } => {
                    // callers pass values inside the (masked) field
                    let old = if *use_current { cur & fmask } else { *stale & fmask };
                    let newv = *new & fmask;
                    let res = spec.compare_exchange::<$t>(header, old as $t, newv as $t, mask_t, Ordering::SeqCst, Ordering::SeqCst);
                    let should = (cur & fmask) == old;
                    match res {
                        Ok(prev) => {
                            vensure!(should, "op {}: compare_exchange(old={:#x}) succeeded but the field held {:#x}", i, old, cur & fmask);
                            if prev as u64 & fmask != cur & fmask || (bits < 8 && prev as u64 != cur) {
                                if bits < 8 && $known {
                                    $known_hit = true;
                                } else {
                                    vfail!("op {}: compare_exchange success returned {:#x}, previous field value is {:#x} ({} bits at bit {})", i, prev, cur, bits, pos as isize - 128);
                                }
                            }
                            model_set($model, pos, bits, (cur & !fmask) | newv);
                        }
                        Err(prev) => {
                            vensure!(!should, "op {}: compare_exchange(old={:#x}) failed but the field held {:#x}", i, old, cur & fmask);
                            if prev as u64 & fmask != cur & fmask || (bits < 8 && prev as u64 != cur) {
                                if bits < 8 && $known {
                                    $known_hit = true;
                                } else {
                                    vfail!("op {}: compare_exchange failure returned {:#x}, field value is {:#x} ({} bits at bit {})", i, prev, cur, bits, pos as isize - 128);
                                }
                            }
                        }
                    }
                }
                HOp::FetchAdd(v) => {
                    let v = (*v & wm) as $t;
                    let prev = spec.fetch_add::<$t>(header, v, Ordering::SeqCst);
                    vensure!(prev as u64 == cur, "op {}: fetch_add returned {:#x}, field held {:#x}", i, prev, cur);
                    model_set($model, pos, bits, cur.wrapping_add(v as u64) & wm);
                }
                HOp::FetchSub(v) => {
                    let v = (*v & wm) as $t;
                    let prev = spec.fetch_sub::<$t>(header, v, Ordering::SeqCst);
                    vensure!(prev as u64 == cur, "op {}: fetch_sub returned {:#x}, field held {:#x}", i, prev, cur);
                    model_set($model, pos, bits, cur.wrapping_sub(v as u64) & wm);
                }
                HOp::FetchAnd(v) => {
                    let v = (*v & wm) as $t;
                    let prev = spec.fetch_and::<$t>(header, v, Ordering::SeqCst);
                    vensure!(prev as u64 == cur, "op {}: fetch_and returned {:#x}, field held {:#x}", i, prev, cur);
                    model_set($model, pos, bits, cur & v as u64);
                }
                HOp::FetchOr(v) => {
                    let v = (*v & wm) as $t;
                    let prev = spec.fetch_or::<$t>(header, v, Ordering::SeqCst);
                    vensure!(prev as u64 == cur, "op {}: fetch_or returned {:#x}, field held {:#x}", i, prev, cur);
                    model_set($model, pos, bits, cur | v as u64);
                }
                HOp::FetchUpdate { new } => {
                    let newv: Option<$t> = new.map(|n| (n & wm) as $t);
                    let res = spec.fetch_update::<$t, _>(header, Ordering::SeqCst, Ordering::SeqCst, |_old: $t| newv);
                    match (res, newv) {
                        (Ok(prev), Some(n)) => {
                            vensure!(prev as u64 == cur, "op {}: fetch_update Ok({:#x}), field held {:#x}", i, prev, cur);
                            model_set($model, pos, bits, n as u64);
                        }
                        (Err(prev), None) => {
                            vensure!(prev as u64 == cur, "op {}: fetch_update Err({:#x}), field held {:#x}", i, prev, cur);
                        }
                        (r, n) => vfail!("op {}: fetch_update returned {:?} for closure result {:?}", i, r.map(|x| x as u64).map_err(|x| x as u64), n.map(|x| x as u64)),
                    }
                }
            }
            // isolation: the whole window must equal the model after every op
            vensure!(&$real[..] == &$model[..], "op {} ({:?}): header bytes {:02x?} differ from the model {:02x?} (field: {} bits at bit {})", i, op, &$real[..], &$model[..], bits, pos as isize - 128);
        }
    }};
}

fn c23(c: &mut Check) {
    let n = c.tier.pick(40_000, 3_000_000);
    let known = c.is_known("header-cas-subbyte-returns-raw-byte");
    c.section(
        "header-accessors",
        n,
        || {
            (0u8..11, 0u16..256, prop::option::weighted(0.4, any::<u64>()), prop::collection::vec(prop_oneof![3 => any::<u8>(), 1 => Just(0u8), 1 => Just(0xffu8)], 32), prop::collection::vec(hop(), 1..40))
                .prop_map(|(width_sel, pos, mask, bytes, ops)| HeaderCase { width_sel, pos, mask, bytes, ops })
        },
        move |case: &HeaderCase, _| {
            use mmtk::util::metadata::header_metadata::HeaderMetadataSpec;
            // a 32-byte window, 8-byte aligned; the header address is its middle (bit 128)
            #[repr(align(16))]
            struct Buf([u8; 32]);
            let mut real = Buf([0u8; 32]);
            real.0.copy_from_slice(&case.bytes[..32]);
            let mut model: [u8; 32] = real.0;
            let header = Address::from_mut_ptr(real.0.as_mut_ptr()) + 16usize;
            let (bits, pos): (usize, usize) = match case.width_sel {
                w @ 0..=6 => {
                    let bits = w as usize + 1;
                    // stay inside one byte
                    let byte = (case.pos as usize / 8) % 32;
                    let bit = (case.pos as usize % 8).min(8 - bits);
                    (bits, byte * 8 + bit)
                }
                7 => (8, ((case.pos as usize / 8) % 32) * 8),
                8 => (16, ((case.pos as usize / 16) % 16) * 16),
                9 => (32, ((case.pos as usize / 32) % 8) * 32),
                _ => (64, ((case.pos as usize / 64) % 4) * 64),
            };
            let bit_offset = pos as isize - 128;
            let spec = HeaderMetadataSpec { bit_offset, num_of_bits: bits };
            let mut case = case.clone();
            if bits < 8 {
                case.mask = None;
            }
            let mut known_hit = false;
            match bits {
                1..=8 => hdr_ops!(u8, spec, header, case, &mut model, pos, bits, real.0, known, known_hit),
                16 => hdr_ops!(u16, spec, header, case, &mut model, pos, bits, real.0, known, known_hit),
                32 => hdr_ops!(u32, spec, header, case, &mut model, pos, bits, real.0, known, known_hit),
                _ => hdr_ops!(u64, spec, header, case, &mut model, pos, bits, real.0, known, known_hit),
            }
            let surrounding_nonzero = case.bytes.iter().any(|b| *b != 0);
            let nt = surrounding_nonzero && (pos % 8 != 0 || bit_offset < 0 || case.mask.is_some());
            let mut l = vec![];
            if bit_offset < 0 {
                l.push("negative_offset");
            }
            if bits < 8 {
                l.push("sub_byte");
            }
            if case.mask.is_some() {
                l.push("masked");
            }
            if known_hit {
                return Outcome::Known { signature: "header-cas-subbyte-returns-raw-byte".into(), nontrivial: nt, labels: l };
            }
            Outcome::pass_l(nt, l)
        },
    );
}

// ------------------------------------------------------------------ C26

#[derive(Serialize, Deserialize, Clone, Debug)]
enum FOp {
    Alloc { head: u8, n: u16 },
    AllocFromUnit { head: u8, n: u16, unit: u16 },
    Free { idx: u16, coalesced: bool },
    SetUncoalescable { unit: u16 },
    ClearUncoalescable { unit: u16 },
    FreeAll,
}

#[derive(Serialize, Deserialize, Clone, Debug)]
struct FreeListCase {
    units: u16,
    grain_sel: u16,
    heads: u8,
    ops: Vec<FOp>,
}

fn fop() -> impl Strategy<Value = FOp> {
    prop_oneof![
        6 => (any::<u8>(), prop_oneof![5 => 1u16..8, 2 => 8u16..64, 1 => 64u16..700]).prop_map(|(head, n)| FOp::Alloc { head, n }),
        2 => (any::<u8>(), 1u16..40, any::<u16>()).prop_map(|(head, n, unit)| FOp::AllocFromUnit { head, n, unit }),
        6 => (any::<u16>(), any::<bool>()).prop_map(|(idx, coalesced)| FOp::Free { idx, coalesced }),
        1 => any::<u16>().prop_map(|unit| FOp::SetUncoalescable { unit }),
        1 => any::<u16>().prop_map(|unit| FOp::ClearUncoalescable { unit }),
        1 => Just(FOp::FreeAll),
    ]
}

/// model: ordered map start -> (len, free, head that owns the free run)
#[derive(Clone, Debug)]
struct Run {
    len: i32,
    free: bool,
    head: usize,
}

pub fn freelist_history(list_new: &mut dyn FnMut(usize, i32, usize) -> Vec<Box<dyn mmtk::verif::FreeList>>, case_units: usize, grain: i32, heads: usize, ops: &[FOp]) -> Outcome {
    use mmtk::verif::FREELIST_FAILURE as FAILURE;
    use std::collections::BTreeMap;
    let units = case_units as i32;
    let mut lists = list_new(case_units, grain, heads);
    // model
    let mut runs: BTreeMap<i32, Run> = BTreeMap::new();
    {
        // initial grain runs all belong to head 0 (initialize_heap adds them to `self.head()` of the creating list)
        let mut cur = 0;
        while cur < units {
            let len = grain.min(units - cur);
            let full_len = if cur + grain <= units { grain } else { units - cur };
            let _ = len;
            runs.insert(cur, Run { len: full_len, free: true, head: 0 });
            cur += full_len;
        }
    }
    let mut uncoalescable: std::collections::HashSet<i32> = Default::default();
    let mut allocated: Vec<i32> = vec![];
    let (mut splits, mut two_sided, mut failures) = (0, 0, 0);
    let check_invariants = |lists: &Vec<Box<dyn mmtk::verif::FreeList>>, runs: &BTreeMap<i32, Run>, when: &str| -> Option<String> {
        // runs tile [0, units); sizes agree; free flags agree
        let mut pos = 0;
        for (s, r) in runs.iter() {
            if *s != pos {
                return Some(format!("{}: model runs do not tile at {}", when, s));
            }
            pos += r.len;
            let l = &lists[0];
            if l.size(*s) != r.len {
                return Some(format!("{}: size({}) = {} but the run has {} units", when, s, l.size(*s), r.len));
            }
        }
        if pos != units {
            return Some(format!("{}: model runs cover {} of {} units", when, pos, units));
        }
        None
    };
    for (i, op) in ops.iter().enumerate() {
        match op {
            FOp::Alloc { head, n } => {
                let h = (*head as usize * heads) >> 8;
                let n = (*n as i32).min(units.max(1));
                // the list scans its free ring; which run it picks depends on ring order, so the
                // oracle only decides success/failure and validates the returned run
                let fits = runs.values().any(|r| r.free && r.head == h && r.len >= n);
                let got = lists[h].alloc(n);
                if got == FAILURE {
                    if fits {
                        return Outcome::fail(format!("op {}: alloc({}) on head {} failed although a free run of that size exists", i, n, h));
                    }
                    failures += 1;
                } else {
                    if !fits {
                        return Outcome::fail(format!("op {}: alloc({}) on head {} returned unit {} although no free run of that size exists on that head", i, n, h, got));
                    }
                    let Some(r) = runs.get(&got).cloned() else {
                        return Outcome::fail(format!("op {}: alloc({}) returned unit {} which is not the start of a run", i, n, got));
                    };
                    if !r.free || r.len < n || r.head != h {
                        return Outcome::fail(format!("op {}: alloc({}) on head {} returned unit {} whose run is {:?}", i, n, h, got, r));
                    }
                    if r.len > n {
                        splits += 1;
                        runs.insert(got + n, Run { len: r.len - n, free: true, head: h });
                    }
                    runs.insert(got, Run { len: n, free: false, head: h });
                    allocated.push(got);
                }
            }
            FOp::AllocFromUnit { head, n, unit } => {
                let h = (*head as usize * heads) >> 8;
                let n = *n as i32;
                // pick a run start from the model
                let starts: Vec<i32> = runs.keys().copied().collect();
                let u = starts[(*unit as usize * starts.len()) >> 16];
                let r = runs[&u].clone();
                // alloc_from_unit is only meaningful for runs on this list's own ring
                if r.free && r.head != h {
                    continue;
                }
                let got = lists[h].alloc_from_unit(n, u);
                let should = r.free && r.len >= n;
                if should {
                    if got != u {
                        return Outcome::fail(format!("op {}: alloc_from_unit({}, {}) returned {} for free run {:?}", i, n, u, got, r));
                    }
                    if r.len > n {
                        splits += 1;
                        runs.insert(u + n, Run { len: r.len - n, free: true, head: h });
                    }
                    runs.insert(u, Run { len: n, free: false, head: h });
                    allocated.push(u);
                } else if got != FAILURE {
                    return Outcome::fail(format!("op {}: alloc_from_unit({}, {}) returned {} but the run is {:?}", i, n, u, got, r));
                } else {
                    failures += 1;
                }
            }
            FOp::Free { idx, coalesced } => {
                if allocated.is_empty() {
                    continue;
                }
                let k = (*idx as usize * allocated.len()) >> 16;
                let u = allocated.swap_remove(k);
                let r = runs[&u].clone();
                let h = r.head;
                let got = lists[h].free(u, *coalesced);
                // model coalescing
                let mut start = u;
                let mut len = r.len;
                let mut sides = 0;
                if !uncoalescable.contains(&u) {
                    if let Some((ls, lr)) = runs.range(..u).next_back().map(|(a, b)| (*a, b.clone())) {
                        if lr.free && ls + lr.len == u {
                            start = ls;
                            len += lr.len;
                            sides += 1;
                            runs.remove(&u);
                        }
                    }
                }
                let right = u + r.len;
                if right < units && !uncoalescable.contains(&right) {
                    if let Some(rr) = runs.get(&right).cloned() {
                        if rr.free {
                            len += rr.len;
                            sides += 1;
                            runs.remove(&right);
                        }
                    }
                }
                if sides == 2 {
                    two_sided += 1;
                }
                runs.remove(&u);
                runs.insert(start, Run { len, free: true, head: h });
                let expect = if *coalesced { len } else { r.len };
                if got != expect {
                    return Outcome::fail(format!("op {}: free({}, {}) returned {}, expected {} (run {} units, coalesced run {} units)", i, u, coalesced, got, expect, r.len, len));
                }
            }
            FOp::SetUncoalescable { unit } | FOp::ClearUncoalescable { unit } => {
                // boundaries are placed at run starts (as Map32 does for region starts)
                let starts: Vec<i32> = runs.keys().copied().collect();
                let u = starts[(*unit as usize * starts.len()) >> 16];
                if matches!(op, FOp::SetUncoalescable { .. }) {
                    lists[0].set_uncoalescable(u);
                    uncoalescable.insert(u);
                } else {
                    lists[0].clear_uncoalescable(u);
                    uncoalescable.remove(&u);
                }
            }
            FOp::FreeAll => {
                // handled below as a normal sequence of frees
                while let Some(u) = allocated.pop() {
                    let r = runs[&u].clone();
                    let h = r.head;
                    lists[h].free(u, false);
                    let mut start = u;
                    let mut len = r.len;
                    if !uncoalescable.contains(&u) {
                        if let Some((ls, lr)) = runs.range(..u).next_back().map(|(a, b)| (*a, b.clone())) {
                            if lr.free && ls + lr.len == u {
                                start = ls;
                                len += lr.len;
                                runs.remove(&u);
                            }
                        }
                    }
                    let right = u + r.len;
                    if right < units && !uncoalescable.contains(&right) {
                        if let Some(rr) = runs.get(&right).cloned() {
                            if rr.free {
                                len += rr.len;
                                runs.remove(&right);
                            }
                        }
                    }
                    runs.remove(&u);
                    runs.insert(start, Run { len, free: true, head: h });
                }
            }
        }
        if let Some(e) = check_invariants(&lists, &runs, &format!("after op {} ({:?})", i, op)) {
            return Outcome::fail(e);
        }
        // allocated runs pairwise disjoint and inside the list: implied by the tiling model + size() agreement
    }
    // free everything: with no uncoalescable boundaries left inside, adjacent free runs of one
    // head must have merged completely
    while let Some(u) = allocated.pop() {
        let r = runs[&u].clone();
        lists[r.head].free(u, false);
        let mut start = u;
        let mut len = r.len;
        if !uncoalescable.contains(&u) {
            if let Some((ls, lr)) = runs.range(..u).next_back().map(|(a, b)| (*a, b.clone())) {
                if lr.free && ls + lr.len == u {
                    start = ls;
                    len += lr.len;
                    runs.remove(&u);
                }
            }
        }
        let right = u + r.len;
        if right < units && !uncoalescable.contains(&right) {
            if let Some(rr) = runs.get(&right).cloned() {
                if rr.free {
                    len += rr.len;
                    runs.remove(&right);
                }
            }
        }
        runs.remove(&u);
        runs.insert(start, Run { len, free: true, head: r.head });
    }
    if let Some(e) = check_invariants(&lists, &runs, "after freeing everything") {
        return Outcome::fail(e);
    }
    // every unit is free again: the sum of sizes of runs that alloc can reach equals units
    let total: i32 = runs.values().map(|r| r.len).sum();
    if total != units || runs.values().any(|r| !r.free) {
        return Outcome::fail(format!("after freeing everything the free runs cover {} of {} units", total, units));
    }
    Outcome::pass_l(splits >= 1 && two_sided >= 1 && failures >= 1, vec![])
}

fn c26(c: &mut Check) {
    let n = c.tier.pick(25_000, 2_000_000);
    c.section(
        "int-array-freelist",
        n,
        || (1u16..600, any::<u16>(), 1u8..5, prop::collection::vec(fop(), 1..300)).prop_map(|(units, grain_sel, heads, ops)| FreeListCase { units, grain_sel, heads, ops }),
        |case: &FreeListCase, _| {
            use mmtk::verif::IntArrayFreeList;
            let units = case.units as usize;
            let grain: i32 = match case.grain_sel % 5 {
                0 => 1,
                1 => 2,
                2 => 3,
                3 => units as i32,
                _ => 1 + (case.grain_sel as i32 / 5) % (units as i32),
            };
            let heads = case.heads as usize;
            // parent list (head 0) + child lists sharing its table
            let mut holder: Vec<Box<IntArrayFreeList>> = vec![];
            let mut mk = |units: usize, grain: i32, heads: usize| -> Vec<Box<dyn mmtk::verif::FreeList>> {
                let parent = Box::new(IntArrayFreeList::new(units, grain, heads));
                let pref: &IntArrayFreeList = unsafe { &*(parent.as_ref() as *const IntArrayFreeList) };
                let mut v: Vec<Box<dyn mmtk::verif::FreeList>> = vec![];
                for h in 1..heads {
                    v.push(Box::new(IntArrayFreeList::from_parent(pref, h as i32)));
                }
                holder.push(parent);
                let p0: Box<dyn mmtk::verif::FreeList> = Box::new(IntArrayFreeList::from_parent(pref, 0));
                let mut out = vec![p0];
                out.extend(v);
                out
            };
            freelist_history(&mut mk, units, grain, heads, &case.ops)
        },
    );
}

// ------------------------------------------------------------------ C36

#[derive(Serialize, Deserialize, Clone, Debug)]
enum TOp {
    Add { n: u8, as_live: bool },
    Gc { full: bool, keep_mask: u64 },
}

#[derive(Serialize, Deserialize, Clone, Debug)]
struct TreadCase {
    ops: Vec<TOp>,
}

fn c36(c: &mut Check) {
    let n = c.tier.pick(25_000, 2_000_000);
    c.section(
        "treadmill",
        n,
        || prop::collection::vec(prop_oneof![3 => (1u8..12, prop::bool::weighted(0.15)).prop_map(|(n, as_live)| TOp::Add { n, as_live }), 2 => (any::<bool>(), any::<u64>()).prop_map(|(full, keep_mask)| TOp::Gc { full, keep_mask })], 1..40).prop_map(|ops| TreadCase { ops }),
        |case: &TreadCase, _| {
            use mmtk::util::ObjectReference;
            use std::collections::BTreeSet;
            let mut tm = mmtk::verif::TreadMill::new();
            let oref = |i: usize| ObjectReference::from_raw_address(unsafe { Address::from_usize(0x10000 + i * 4096) }).unwrap();
            let idx = |o: ObjectReference| (o.to_raw_address().as_usize() - 0x10000) / 4096;
            // model sets (indices)
            let mut alloc_nursery: BTreeSet<usize> = BTreeSet::new();
            let mut to_space: BTreeSet<usize> = BTreeSet::new();
            let mut next = 0usize;
            let mut good_gcs = 0;
            for (i, op) in case.ops.iter().enumerate() {
                match op {
                    TOp::Add { n, as_live } => {
                        for _ in 0..*n {
                            tm.add_to_treadmill(oref(next), !*as_live);
                            if *as_live {
                                to_space.insert(next);
                            } else {
                                alloc_nursery.insert(next);
                            }
                            next += 1;
                        }
                    }
                    TOp::Gc { full, keep_mask } => {
                        // prepare
                        tm.flip(*full);
                        let collect_nursery: BTreeSet<usize> = std::mem::take(&mut alloc_nursery);
                        let from_space: BTreeSet<usize> = if *full { std::mem::take(&mut to_space) } else { BTreeSet::new() };
                        vensure!(tm.is_alloc_nursery_empty(), "op {}: alloc nursery not empty after flip", i);
                        if *full {
                            vensure!(tm.is_to_space_empty(), "op {}: to-space not empty after a full flip", i);
                        }
                        // trace: a generated subset survives
                        let keep = |k: usize| (keep_mask >> (k % 64)) & 1 == 1;
                        let mut survivors = 0;
                        let mut garbage = 0;
                        for k in collect_nursery.iter() {
                            if keep(*k) {
                                tm.copy(oref(*k), true);
                                to_space.insert(*k);
                                survivors += 1;
                            } else {
                                garbage += 1;
                            }
                        }
                        for k in from_space.iter() {
                            if keep(*k) {
                                tm.copy(oref(*k), false);
                                to_space.insert(*k);
                                survivors += 1;
                            } else {
                                garbage += 1;
                            }
                        }
                        // release
                        let dead_n: BTreeSet<usize> = tm.collect_nursery().into_iter().map(idx).collect();
                        let exp_n: BTreeSet<usize> = collect_nursery.iter().copied().filter(|k| !keep(*k)).collect();
                        vensure!(dead_n == exp_n, "op {}: collect_nursery returned {:?}, expected {:?}", i, dead_n, exp_n);
                        vensure!(tm.is_collect_nursery_empty(), "op {}: collect nursery not empty after collect", i);
                        if *full {
                            let dead_m: BTreeSet<usize> = tm.collect_mature().into_iter().map(idx).collect();
                            let exp_m: BTreeSet<usize> = from_space.iter().copied().filter(|k| !keep(*k)).collect();
                            vensure!(dead_m == exp_m, "op {}: collect_mature returned {:?}, expected {:?}", i, dead_m, exp_m);
                            vensure!(tm.is_from_space_empty(), "op {}: from-space not empty after collect", i);
                        }
                        if survivors > 0 && garbage > 0 {
                            good_gcs += 1;
                        }
                    }
                }
                // every live object is in exactly one set: enumerate == union, no duplicates
                let mut seen = BTreeSet::new();
                let mut dup = None;
                for o in mmtk::verif::treadmill_objects(&tm, true) {
                    if !seen.insert(idx(o)) {
                        dup = Some(idx(o));
                    }
                }
                vensure!(dup.is_none(), "op {}: object {:?} is in two treadmill sets", i, dup);
                let union: BTreeSet<usize> = alloc_nursery.union(&to_space).copied().collect();
                vensure!(seen == union, "op {}: treadmill holds {:?}, model {:?}", i, seen, union);
            }
            Outcome::pass_l(good_gcs >= 2, vec![])
        },
    );
}
