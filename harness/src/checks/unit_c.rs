//! C35 size classes, C32 space descriptors, C38 heap-size bounds, C39 options, C37 compressor
//! forwarding, C27 raw-memory free list growth.

use super::Entry;
use crate::runner::{Check, Env, Outcome};
use crate::shadow::vm::{RawObj, ShadowVM};
use crate::{vensure, vfail};
use mmtk::util::{Address, ObjectReference};
use proptest::prelude::*;
use serde::{Deserialize, Serialize};

pub fn entries() -> Vec<Entry> {
    vec![
        Entry { id: "C35", rule: "exhaustive enumeration of every request size 0..=MAX_BIN_SIZE (step MIN_ALIGNMENT) x every legal alignment for VM variants (MIN,MAX) = (8,8),(8,16),(8,64),(4,8),(4,64): selected class holds the padded request, classes monotone in size, class sizes strictly increasing; plus generated MarkSweep fills of a fresh block per size class (cells disjoint, cell-sized, inside the block, count = floor(block/cell)); non-trivial = alignment > MIN_ALIGNMENT or size at a class boundary", run: c35 },
        Entry { id: "C32", rule: "cases = (start chunk, chunk count 1..1023, top-of-heap or not) under a compressed-pointer (32-bit style) layout, and every space index under the 64-bit layout; oracle = round trip of start/extent/contiguity/top flag; discontiguous descriptors pairwise distinct; non-trivial = exponent > 0 and mantissa > 1", run: c32 },
        Entry { id: "C38", rule: "cases = (min <= max pages) x history of 1..40 steps of pending-allocation notifications and end-of-GC statistics (live, reserve, allocation/collection pages and times incl. zeros); oracle = min <= current <= max after every step; non-trivial = the unclamped optimum falls below min and above max within one history", run: c38 },
        Entry { id: "C39", rule: "cases = grammar-generated and mutated value strings for gc_trigger / nursery / thread_affinity / numeric / boolean options, option names valid, invalid and wrong-case, bulk strings of 0..6 pairs; oracle = reference parsers written from the doc comments + restated validators, field-by-field snapshot of Options before/after; non-trivial = accepted with suffix or range, or rejected by validation (not by parsing)", run: c39 },
        Entry { id: "C37", rule: "cases = 0..600 non-overlapping objects of 2..400 words at word-aligned offsets in a 1 MiB region with generated gaps, incl. objects spanning and abutting 512-byte blocks; marks set as CompressorSpace does; oracle = prefix sums of live sizes; non-trivial = >= 1 object spanning a block boundary preceded by >= 2 live objects", run: c37 },
        Entry { id: "C27", rule: "cases = (units 1..200000, grain, heads 1..4, pages per block in {1,2,3,16,default}) with the list limit exactly at its table size, growth step sequences to the maximum; oracle = every grow up to the maximum succeeds, beyond fails, guard page after the limit untouched, alloc(1) succeeds exactly current_units times; non-trivial = table bytes not a multiple of the block size", run: c27 },
    ]
}

fn addr(a: usize) -> Address {
    unsafe { Address::from_usize(a) }
}

// ------------------------------------------------------------------ C35

#[derive(Serialize, Deserialize, Clone, Debug)]
struct BinCase {
    vm: u8,
    align: usize,
}

fn bins_for<const V: usize>(align: usize, known: bool) -> Outcome {
    use mmtk::verif::marksweep as ms;
    use mmtk::vm::VMBinding;
    let min = <ShadowVM<V> as VMBinding>::MIN_ALIGNMENT;
    let max = <ShadowVM<V> as VMBinding>::MAX_ALIGNMENT;
    if align < min || align > max {
        return Outcome::pass(false);
    }
    let sizes = ms::bin_sizes();
    vensure!(sizes.len() == ms::MAX_BIN + 1, "size-class table has {} entries", sizes.len());
    for b in 2..sizes.len() {
        vensure!(sizes[b] > sizes[b - 1], "size classes not strictly increasing at bin {}: {} then {}", b, sizes[b - 1], sizes[b]);
    }
    vensure!(sizes[ms::MAX_BIN] == ms::MAX_BIN_SIZE, "largest class {} != MAX_BIN_SIZE {}", sizes[ms::MAX_BIN], ms::MAX_BIN_SIZE);
    let mut prev_bin = 0usize;
    let mut known_hit = false;
    let mut size = 0usize;
    while size <= ms::MAX_BIN_SIZE {
        let padded = mmtk::verif::alloc::get_maximum_aligned_size::<ShadowVM<V>>(size, align);
        if padded > ms::MAX_BIN_SIZE {
            // size <= MAX_BIN_SIZE (= MarkSweep's max_non_los_default_alloc_bytes) is a legal request,
            // but the padded size exceeds the largest class
            if known {
                known_hit = true;
                size += min;
                continue;
            }
            let res = std::panic::catch_unwind(|| ms::mi_bin::<ShadowVM<V>>(size, align));
            vfail!("mi_bin(size={}, align={}) with MIN_ALIGNMENT={}: padded size {} exceeds the largest size class {}; result {:?}", size, align, min, padded, ms::MAX_BIN_SIZE, res.ok());
        }
        let bin = ms::mi_bin::<ShadowVM<V>>(size, align);
        vensure!(bin >= 1 && bin <= ms::MAX_BIN, "mi_bin({}, {}) = {} out of range", size, align, bin);
        vensure!(sizes[bin] >= padded, "mi_bin({}, {}) = {} whose cell {} cannot hold the aligned request {}", size, align, bin, sizes[bin], padded);
        vensure!(bin >= prev_bin, "mi_bin not monotone: size {} -> bin {}, previous size -> bin {}", size, bin, prev_bin);
        // tightness is not required by the property, only fit and monotonicity
        prev_bin = bin;
        size += min;
    }
    if known_hit {
        return Outcome::Known { signature: "mi-bin-align-slack".into(), nontrivial: true, labels: vec![] };
    }
    Outcome::pass(align > min)
}

fn c35(c: &mut Check) {
    c.level = "other";
    let known = c.is_known("mi-bin-align-slack");
    let mut items = vec![];
    for vm in 0..5u8 {
        for al in [4usize, 8, 16, 32, 64] {
            items.push(BinCase { vm, align: al });
        }
    }
    c.enumerate("size-classes-exhaustive", items, |case: &BinCase| match case.vm {
        0 => bins_for::<0>(case.align, known),
        1 => bins_for::<1>(case.align, known),
        2 => bins_for::<3>(case.align, known),
        3 => bins_for::<4>(case.align, known),
        _ => bins_for::<5>(case.align, known),
    });
    c.extra("exhaustive", serde_json::json!(true));
    c.extra("explanation", serde_json::json!("Complete enumeration of the finite space (size 0..=MAX_BIN_SIZE in MIN_ALIGNMENT steps) x (every power-of-two alignment in [MIN,MAX]) x 5 VM alignment variants: each (variant, alignment) item enumerates all sizes. The fresh-block cell layout is explored by generated MarkSweep fills (section fresh-block-cells)."));
    // fresh block cells through the real allocator (whole system)
    super::e1checks::c35_system(c);
}

// ------------------------------------------------------------------ C32

#[derive(Serialize, Deserialize, Clone, Debug)]
struct DescCase {
    start_chunk: u32,
    chunks: u16,
    top: bool,
}

fn c32(c: &mut Check) {
    let n = c.tier.pick(100_000, 4_000_000);
    c.section_procs(
        "layout32-roundtrip",
        n,
        4,
        || (any::<u32>(), 1u16..1024, prop::bool::weighted(0.2)).prop_map(|(start_chunk, chunks, top)| DescCase { start_chunk, chunks, top }),
        |case: &DescCase, _env: &Env| {
            use mmtk::util::heap::vm_layout::{vm_layout, VMLayout, BYTES_IN_CHUNK};
            use mmtk::verif::SpaceDescriptor;
            static INIT: std::sync::Once = std::sync::Once::new();
            INIT.call_once(|| {
                // compressed-pointer style layout: 32-bit descriptor encoding on a 64-bit host
                let mut b = mmtk::MMTKBuilder::new_no_env_vars();
                b.set_vm_layout(VMLayout { log_address_space: 35, heap_start: addr(0x4000_0000), heap_end: addr(0x4_4000_0000), log_space_extent: 31, force_use_contiguous_spaces: false });
            });
            let hs = vm_layout().heap_start.as_usize();
            let he = vm_layout().heap_end.as_usize();
            let total_chunks = (he - hs) / BYTES_IN_CHUNK;
            let chunks = (case.chunks as usize).min(total_chunks).max(1);
            let (start, end) = if case.top {
                (he - chunks * BYTES_IN_CHUNK, he)
            } else {
                let sc = case.start_chunk as usize % (total_chunks - chunks + 1);
                let s = hs + sc * BYTES_IN_CHUNK;
                let mut e = s + chunks * BYTES_IN_CHUNK;
                if e == he && chunks > 1 {
                    e -= BYTES_IN_CHUNK;
                }
                (s, e)
            };
            let d = SpaceDescriptor::create_descriptor_from_heap_range(addr(start), addr(end));
            vensure!(!d.is_empty(), "descriptor of [{:#x},{:#x}) is empty", start, end);
            vensure!(d.is_contiguous(), "descriptor of [{:#x},{:#x}) not contiguous", start, end);
            vensure!(d.get_start().as_usize() == start, "descriptor of [{:#x},{:#x}): get_start = {:#x}", start, end, d.get_start().as_usize());
            vensure!(d.get_extent() == end - start, "descriptor of [{:#x},{:#x}): get_extent = {:#x}", start, end, d.get_extent());
            vensure!(d.is_contiguous_hi() == (end == he), "descriptor of [{:#x},{:#x}): is_contiguous_hi = {} (heap_end {:#x})", start, end, d.is_contiguous_hi(), he);
            // two different ranges never share a descriptor
            let d2 = SpaceDescriptor::create_descriptor_from_heap_range(addr(start), addr(end));
            vensure!(d == d2, "descriptor not deterministic");
            let tz = (start >> 18).trailing_zeros();
            let mant = (start >> 18) >> tz;
            Outcome::pass_l(tz > 0 && mant > 1, if case.top { vec!["top_of_heap"] } else { vec![] })
        },
    );
    c.section_procs(
        "layout64-and-discontiguous",
        n / 10,
        2,
        || (1u32..16, any::<bool>()).prop_map(|(start_chunk, top)| DescCase { start_chunk, chunks: 0, top }),
        |case: &DescCase, _env: &Env| {
            use mmtk::util::heap::vm_layout::vm_layout;
            use mmtk::verif::SpaceDescriptor;
            let idx = case.start_chunk as usize;
            let ext = vm_layout().max_space_extent();
            let start = idx * ext;
            let he = vm_layout().heap_end.as_usize();
            let end = if case.top && start + ext <= he { start + ext } else { start + ext / 2 };
            let d = SpaceDescriptor::create_descriptor_from_heap_range(addr(start), addr(end));
            vensure!(d.is_contiguous() && !d.is_empty(), "64-bit descriptor for index {} not contiguous/non-empty", idx);
            vensure!(d.get_start().as_usize() == start, "64-bit descriptor index {}: start {:#x} != {:#x}", idx, d.get_start().as_usize(), start);
            vensure!(d.get_index() == idx, "64-bit descriptor index {} decodes to {}", idx, d.get_index());
            vensure!(d.get_extent() == ext, "64-bit descriptor extent {:#x}", d.get_extent());
            vensure!(d.is_contiguous_hi() == (end == he), "64-bit descriptor top flag");
            // discontiguous descriptors: distinct, non-contiguous, non-empty
            let a = SpaceDescriptor::create_descriptor();
            let b = SpaceDescriptor::create_descriptor();
            vensure!(a != b, "two discontiguous descriptors are equal");
            for x in [a, b] {
                vensure!(!x.is_empty() && !x.is_contiguous() && !x.is_contiguous_hi(), "discontiguous descriptor {:?} misclassified", x);
                vensure!(x != d, "discontiguous descriptor equals a contiguous one");
            }
            Outcome::pass_l(true, vec![])
        },
    );
}

// ------------------------------------------------------------------ C38

#[derive(Serialize, Deserialize, Clone, Debug)]
enum BOp {
    Pending(u32),
    Step { live: u32, extra: u16, ap: u32, at: u8, cp: u32, ct: u8 },
}

#[derive(Serialize, Deserialize, Clone, Debug)]
struct BalCase {
    min: u32,
    span: u32,
    ops: Vec<BOp>,
}

fn time_of(sel: u8) -> f64 {
    match sel % 8 {
        0 => 0.0,
        1 => 1e-9,
        2 => 1e-6,
        3 => 0.001,
        4 => 0.25,
        5 => 3.0,
        6 => 1000.0,
        _ => 1e6,
    }
}

fn c38(c: &mut Check) {
    let n = c.tier.pick(60_000, 5_000_000);
    c.section(
        "membalancer-history",
        n,
        || {
            let pages = || prop_oneof![2 => 0u32..64, 3 => 0u32..100_000, 1 => 0u32..u32::MAX / 4];
            (prop_oneof![1 => Just(0u32), 3 => 1u32..50_000, 1 => 1u32..10_000_000], prop_oneof![1 => Just(0u32), 3 => 0u32..100_000, 1 => 0u32..10_000_000], prop::collection::vec(prop_oneof![1 => pages().prop_map(BOp::Pending), 3 => (pages(), any::<u16>(), pages(), any::<u8>(), pages(), any::<u8>()).prop_map(|(live, extra, ap, at, cp, ct)| BOp::Step { live, extra, ap, at, cp, ct })], 1..40))
                .prop_map(|(min, span, ops)| BalCase { min, span, ops })
        },
        |case: &BalCase, _| {
            let min = case.min as usize;
            let max = min + case.span as usize;
            let t = mmtk::verif::MemBalancerTrigger::verif_new(min, max);
            vensure!(t.verif_current() >= min && t.verif_current() <= max, "initial heap size {} outside [{}, {}]", t.verif_current(), min, max);
            let (mut below, mut above) = (false, false);
            let mut pending = 0usize;
            for (i, op) in case.ops.iter().enumerate() {
                match op {
                    BOp::Pending(p) => {
                        t.verif_pending(*p as usize);
                        pending += *p as usize;
                    }
                    BOp::Step { live, extra, ap, at, cp, ct } => {
                        // a rough classification of where the unclamped optimum falls (lower bound: live + pending)
                        let lb = *live as usize + *extra as usize + pending;
                        if lb > max {
                            above = true;
                        }
                        if (*live as usize) * 3 + (*extra as usize) + pending + 64 < min {
                            below = true;
                        }
                        let r = std::panic::catch_unwind(std::panic::AssertUnwindSafe(|| t.verif_step(*live as usize, *extra as usize, *ap as f64, time_of(*at), *cp as f64, time_of(*ct))));
                        vensure!(r.is_ok(), "step {} ({:?}) panicked", i, op);
                        pending = 0;
                    }
                }
                let cur = t.verif_current();
                vensure!(cur >= min && cur <= max, "after step {} ({:?}): heap size {} pages outside [{}, {}]", i, op, cur, min, max);
            }
            Outcome::pass_l(below && above, if min == max { vec!["min_eq_max"] } else { vec![] })
        },
    );
}

// ------------------------------------------------------------------ C39

#[derive(Serialize, Deserialize, Clone, Debug)]
struct OptCase {
    /// (name, value) pairs; 1 pair = set_from_string, several = bulk
    pairs: Vec<(String, String)>,
    bulk: bool,
    sep_comma: bool,
}

fn digits() -> impl Strategy<Value = String> {
    prop_oneof![
        4 => (0u64..5000).prop_map(|n| n.to_string()),
        2 => any::<u64>().prop_map(|n| n.to_string()),
        1 => Just("0".to_string()),
        1 => Just("18446744073709551615".to_string()),
        1 => Just("18446744073709551616".to_string()),
        1 => Just("18014398509481983".to_string()),
        1 => Just("18014398509481984".to_string()),
        1 => Just("18014398509481985".to_string()),
        1 => (0u64..100).prop_map(|n| format!("00{}", n)),
    ]
}

fn size_str() -> impl Strategy<Value = String> {
    (digits(), prop_oneof![3 => Just(""), 1 => Just("k"), 1 => Just("K"), 1 => Just("m"), 1 => Just("M"), 1 => Just("g"), 1 => Just("G"), 1 => Just("t"), 1 => Just("T")]).prop_map(|(d, s)| format!("{}{}", d, s))
}

fn mutate(s: String) -> impl Strategy<Value = String> {
    let len = s.chars().count();
    (0usize..(len + 1), 0u8..8, prop_oneof![Just('x'), Just(' '), Just(':'), Just(','), Just('-'), Just('_'), Just('+'), Just('9'), Just('k'), Just('\u{0663}'), Just('\u{00e9}'), Just('=')]).prop_map(move |(pos, kind, ch)| {
        let mut cs: Vec<char> = s.chars().collect();
        match kind {
            0 if !cs.is_empty() => {
                cs.remove(pos.min(cs.len() - 1));
            }
            1 => cs.insert(pos.min(cs.len()), ch),
            2 if cs.len() >= 2 => {
                let p = pos.min(cs.len() - 2);
                cs.swap(p, p + 1);
            }
            3 if !cs.is_empty() => {
                let p = pos.min(cs.len() - 1);
                let c = cs[p];
                cs.insert(p, c);
            }
            _ => {}
        }
        cs.into_iter().collect()
    })
}

fn value_for(name: &'static str) -> BoxedStrategy<String> {
    match name {
        "gc_trigger" => prop_oneof![
            4 => size_str().prop_map(|s| format!("FixedHeapSize:{}", s)),
            4 => (size_str(), size_str()).prop_map(|(a, b)| format!("DynamicHeapSize:{},{}", a, b)),
            1 => Just("Delegated".to_string()),
            1 => Just("".to_string()),
            1 => size_str(),
        ]
        .boxed(),
        "nursery" => {
            let us = || prop_oneof![3 => digits(), 1 => Just("_".to_string())];
            let fl = || prop_oneof![3 => (0u32..1500).prop_map(|x| format!("{}", x as f64 / 1000.0)), 1 => Just("_".to_string()), 1 => Just("1".to_string()), 1 => Just("0".to_string()), 1 => Just("1.0".to_string())];
            prop_oneof![
                3 => (us(), us()).prop_map(|(a, b)| format!("Bounded:{},{}", a, b)),
                3 => (fl(), fl()).prop_map(|(a, b)| format!("ProportionalBounded:{},{}", a, b)),
                3 => digits().prop_map(|a| format!("Fixed:{}", a)),
                1 => us().prop_map(|a| format!("Bounded:{}", a)),
                1 => Just("Fixed:_".to_string()),
            ]
            .boxed()
        }
        "thread_affinity" => {
            let id = || prop_oneof![3 => (0u32..20).prop_map(|x| x.to_string()), 1 => (0u32..70000).prop_map(|x| x.to_string())];
            let item = move || prop_oneof![3 => id(), 2 => (id(), id()).prop_map(|(a, b)| format!("{}-{}", a, b))];
            (prop_oneof![2 => Just(""), 1 => Just("RoundRobin:"), 1 => Just("AllInSet:"), 1 => Just("Other:")], prop::collection::vec(item(), 0..5)).prop_map(|(p, items)| format!("{}{}", p, items.join(","))).boxed()
        }
        "threads" | "stress_factor" | "vm_space_size" | "immix_defrag_headroom_percent" => prop_oneof![3 => digits(), 1 => Just("-1".to_string()), 1 => Just("".to_string())].boxed(),
        "plan" => prop_oneof![Just("SemiSpace"), Just("Immix"), Just("GenImmix"), Just("semispace"), Just("NoGC"), Just("Nope"), Just("ConcurrentImmix")].prop_map(|s| s.to_string()).boxed(),
        _ => prop_oneof![Just("true"), Just("false"), Just("True"), Just("1"), Just(""), Just("yes")].prop_map(|s| s.to_string()).boxed(),
    }
}

const OPT_NAMES: [&str; 12] = ["gc_trigger", "nursery", "thread_affinity", "threads", "stress_factor", "vm_space_size", "immix_defrag_headroom_percent", "plan", "no_finalizer", "full_heap_system_gc", "precise_stress", "immix_always_defrag"];

fn pair() -> impl Strategy<Value = (String, String)> {
    (0usize..OPT_NAMES.len()).prop_flat_map(|i| {
        let name = OPT_NAMES[i];
        let v = value_for(name);
        let v = prop_oneof![3 => v.clone(), 1 => v.prop_flat_map(mutate)];
        let n = prop_oneof![8 => Just(name.to_string()), 1 => Just(name.to_uppercase()), 1 => Just(format!("{}x", name)), 1 => Just("".to_string())];
        (n, v)
    })
}

// ---- reference parsers (written from the doc comments in options.rs)

#[derive(Debug, Clone, PartialEq)]
enum RefVal {
    /// rendered exactly as the Debug of the real option value, when the docs determine it
    Debug(String),
    Reject,
    /// the documentation does not determine the outcome
    Abstain,
}

fn ref_size(s: &str) -> Option<Result<u64, ()>> {
    // digits followed by an optional k/m/g/t (either case); value = digits * 1024^n; overflow is an error
    let (num, suf) = match s.chars().last() {
        Some(c) if c.is_ascii_alphabetic() => (&s[..s.len() - 1], Some(c.to_ascii_lowercase())),
        _ => (s, None),
    };
    if num.is_empty() || !num.bytes().all(|b| b.is_ascii_digit()) {
        return None;
    }
    let mult: u128 = match suf {
        None => 1,
        Some('k') => 1 << 10,
        Some('m') => 1 << 20,
        Some('g') => 1 << 30,
        Some('t') => 1 << 40,
        _ => return None,
    };
    let n: u128 = match num.parse::<u128>() {
        Ok(n) => n,
        Err(_) => return Some(Err(())),
    };
    let v = n.checked_mul(mult);
    match v {
        Some(v) if v <= u64::MAX as u128 => Some(Ok(v as u64)),
        _ => Some(Err(())),
    }
}

fn ref_parse(name: &str, val: &str) -> RefVal {
    let is_ascii = val.is_ascii();
    match name {
        "gc_trigger" => {
            if !is_ascii {
                // text around "Delegated" is undocumented (see below), whatever its alphabet
                if val.contains("Delegated") {
                    return RefVal::Abstain;
                }
                return if val.chars().all(|c| !c.is_numeric() || c.is_ascii_digit()) { RefVal::Reject } else { RefVal::Abstain };
            }
            if val == "Delegated" {
                return RefVal::Debug("Delegated".into());
            }
            if let Some(rest) = val.strip_prefix("FixedHeapSize:") {
                return match ref_size(rest) {
                    Some(Ok(v)) => {
                        if v > 0 {
                            RefVal::Debug(format!("FixedHeapSize({})", v))
                        } else {
                            RefVal::Reject
                        }
                    }
                    Some(Err(())) => RefVal::Reject,
                    None => RefVal::Reject,
                };
            }
            if let Some(rest) = val.strip_prefix("DynamicHeapSize:") {
                let parts: Vec<&str> = rest.split(',').collect();
                if parts.len() != 2 {
                    return RefVal::Reject;
                }
                return match (ref_size(parts[0]), ref_size(parts[1])) {
                    (Some(Ok(a)), Some(Ok(b))) => {
                        if a <= b {
                            RefVal::Debug(format!("DynamicHeapSize({}, {})", a, b))
                        } else {
                            RefVal::Reject
                        }
                    }
                    _ => RefVal::Reject,
                };
            }
            // anything else, including text around "Delegated": the docs are silent on trailing text
            if val.contains("Delegated") {
                RefVal::Abstain
            } else {
                RefVal::Reject
            }
        }
        "nursery" => {
            let parts: Vec<&str> = val.split(':').collect();
            if parts.len() != 2 {
                return RefVal::Reject;
            }
            let vals: Vec<&str> = parts[1].split(',').collect();
            let us = |s: &str, d: usize| -> Option<usize> {
                if s == "_" {
                    Some(d)
                } else if !s.is_empty() && s.bytes().all(|b| b.is_ascii_digit()) {
                    s.parse::<usize>().ok()
                } else if s.starts_with('+') {
                    // Rust's integer parser accepts a leading '+': documented grammar is silent
                    None
                } else {
                    None
                }
            };
            match parts[0] {
                "Bounded" => {
                    if vals.len() != 2 {
                        return RefVal::Reject;
                    }
                    if vals.iter().any(|v| v.starts_with('+')) {
                        return RefVal::Abstain;
                    }
                    match (us(vals[0], mmtk::util::options::DEFAULT_MIN_NURSERY), us(vals[1], mmtk::util::options::DEFAULT_MAX_NURSERY)) {
                        (Some(a), Some(b)) => {
                            if a <= b {
                                RefVal::Debug(format!("Bounded {{ min: {}, max: {} }}", a, b))
                            } else {
                                RefVal::Reject
                            }
                        }
                        _ => RefVal::Reject,
                    }
                }
                "ProportionalBounded" => {
                    if vals.len() != 2 {
                        return RefVal::Reject;
                    }
                    let fl = |s: &str, d: f64| -> Option<Option<f64>> {
                        if s == "_" {
                            Some(Some(d))
                        } else if !s.is_empty() && s.bytes().all(|b| b.is_ascii_digit() || b == b'.') && s.bytes().filter(|b| *b == b'.').count() <= 1 && s != "." {
                            Some(s.parse::<f64>().ok())
                        } else if s.is_empty() {
                            Some(None)
                        } else {
                            None // exotic float syntax (exponents, inf, nan, signs): docs silent
                        }
                    };
                    match (fl(vals[0], 0.25), fl(vals[1], 1.0)) {
                        (Some(Some(a)), Some(Some(b))) => {
                            if 0.0 < a && a <= b && b <= 1.0 {
                                RefVal::Debug(format!("ProportionalBounded {{ min: {:?}, max: {:?} }}", a, b))
                            } else {
                                RefVal::Reject
                            }
                        }
                        (None, _) | (_, None) => RefVal::Abstain,
                        _ => RefVal::Reject,
                    }
                }
                "Fixed" => {
                    if vals.len() != 1 {
                        return RefVal::Reject;
                    }
                    if vals[0].starts_with('+') {
                        return RefVal::Abstain;
                    }
                    if !vals[0].is_empty() && vals[0].bytes().all(|b| b.is_ascii_digit()) {
                        match vals[0].parse::<usize>() {
                            Ok(v) => RefVal::Debug(format!("Fixed({})", v)),
                            Err(_) => RefVal::Reject,
                        }
                    } else {
                        RefVal::Reject
                    }
                }
                _ => RefVal::Reject,
            }
        }
        "thread_affinity" => {
            if val.is_empty() {
                return RefVal::Debug("OsDefault".into());
            }
            if val.contains('+') {
                return RefVal::Abstain;
            }
            let (kind, list) = match val.split_once(':') {
                Some((k, l)) => (Some(k), l),
                None => (None, val),
            };
            let all_in_set = match kind {
                None | Some("RoundRobin") => false,
                Some("AllInSet") => true,
                Some(_) => return RefVal::Reject,
            };
            let mut set: std::collections::BTreeSet<u16> = Default::default();
            for item in list.split(',') {
                let num = |s: &str| -> Option<u16> {
                    if !s.is_empty() && s.bytes().all(|b| b.is_ascii_digit()) {
                        s.parse::<u16>().ok()
                    } else {
                        None
                    }
                };
                if let Some((a, b)) = item.split_once('-') {
                    match (num(a), num(b)) {
                        (Some(a), Some(b)) if a < b => {
                            for x in a..=b {
                                set.insert(x);
                            }
                        }
                        _ => return RefVal::Reject,
                    }
                } else {
                    match num(item) {
                        Some(x) => {
                            set.insert(x);
                        }
                        None => return RefVal::Reject,
                    }
                }
            }
            let v: Vec<u16> = set.into_iter().collect();
            if all_in_set {
                RefVal::Debug(format!("AllInSet({:?})", v))
            } else {
                // validation: every core id must exist
                let ncpu = std::thread::available_parallelism().map(|n| n.get()).unwrap_or(1) as u16;
                let _ = ncpu;
                // the number of CPUs mmtk sees may differ from the affinity mask of this process: abstain on validation
                if v.iter().all(|c| *c < 2) {
                    RefVal::Debug(format!("RoundRobin({:?})", v))
                } else {
                    RefVal::Abstain
                }
            }
        }
        "threads" | "vm_space_size" => {
            if val.starts_with('+') {
                return RefVal::Abstain;
            }
            if !val.is_empty() && val.bytes().all(|b| b.is_ascii_digit()) {
                match val.parse::<usize>() {
                    Ok(v) if v > 0 => RefVal::Debug(v.to_string()),
                    _ => RefVal::Reject,
                }
            } else {
                RefVal::Reject
            }
        }
        "stress_factor" => {
            if val.starts_with('+') {
                return RefVal::Abstain;
            }
            if !val.is_empty() && val.bytes().all(|b| b.is_ascii_digit()) {
                match val.parse::<usize>() {
                    Ok(v) => RefVal::Debug(v.to_string()),
                    _ => RefVal::Reject,
                }
            } else {
                RefVal::Reject
            }
        }
        "immix_defrag_headroom_percent" => {
            if val.starts_with('+') {
                return RefVal::Abstain;
            }
            if !val.is_empty() && val.bytes().all(|b| b.is_ascii_digit()) {
                match val.parse::<usize>() {
                    Ok(v) if v <= 50 => RefVal::Debug(v.to_string()),
                    _ => RefVal::Reject,
                }
            } else {
                RefVal::Reject
            }
        }
        "plan" => {
            if crate::shadow::case::PLANS.contains(&val) {
                RefVal::Debug(val.to_string())
            } else {
                RefVal::Reject
            }
        }
        "no_finalizer" | "full_heap_system_gc" | "precise_stress" | "immix_always_defrag" => match val {
            "true" => RefVal::Debug("true".into()),
            "false" => RefVal::Debug("false".into()),
            _ => RefVal::Reject,
        },
        _ => RefVal::Reject, // unknown key
    }
}

fn snapshot(o: &mmtk::util::options::Options) -> Vec<(&'static str, String)> {
    o.verif_snapshot()
}

fn c39(c: &mut Check) {
    let n = c.tier.pick(24_000, 3_000_000);
    c.section(
        "set-from-string",
        n,
        || (prop::collection::vec(pair(), 1..2), Just(false), any::<bool>()).prop_map(|(pairs, bulk, sep_comma)| OptCase { pairs, bulk, sep_comma }),
        |case: &OptCase, _| check_options(case),
    );
    c.section(
        "bulk",
        n / 3,
        || (prop::collection::vec(pair(), 0..6), Just(true), any::<bool>()).prop_map(|(pairs, bulk, sep_comma)| OptCase { pairs, bulk, sep_comma }),
        |case: &OptCase, _| check_options(case),
    );
}

fn check_options(case: &OptCase) -> Outcome {
    use mmtk::util::options::Options;
    // Options::default() queries the OS (memory size, cpu count): build it once per thread
    thread_local! { static DEFAULT: Options = Options::default(); }
    let mut o = DEFAULT.with(|d| d.clone());
    let mut labels = vec![];
    let mut nt = false;
    if !case.bulk {
        let (name, val) = &case.pairs[0];
        let before = snapshot(&o);
        let r = std::panic::catch_unwind(std::panic::AssertUnwindSafe(|| o.set_from_string(name, val)));
        let Ok(accepted) = r else { vfail!("set_from_string({:?}, {:?}) panicked", name, val) };
        let after = snapshot(&o);
        let changed: Vec<&(&str, String)> = after.iter().zip(before.iter()).filter(|(a, b)| a != b).map(|(a, _)| a).collect();
        let known_name = OPT_NAMES.contains(&name.as_str());
        let expect = if known_name { ref_parse(name, val) } else { RefVal::Reject };
        if !accepted {
            vensure!(changed.is_empty(), "set_from_string({:?}, {:?}) returned false but changed {:?}", name, val, changed);
        } else {
            vensure!(changed.iter().all(|(n, _)| *n == name.as_str()), "set_from_string({:?}, {:?}) changed other options: {:?}", name, val, changed);
        }
        match &expect {
            RefVal::Abstain => labels.push("undocumented"),
            RefVal::Reject => {
                vensure!(!accepted, "set_from_string({:?}, {:?}) returned true; the documented grammar/validation rejects it (now {:?})", name, val, after.iter().find(|(n, _)| *n == name.as_str()));
                labels.push("rejected");
                // rejected by validation rather than by parsing?
                if matches!(name.as_str(), "gc_trigger" | "nursery" | "threads" | "immix_defrag_headroom_percent") && val.bytes().any(|b| b.is_ascii_digit()) {
                    nt = true;
                }
            }
            RefVal::Debug(d) => {
                vensure!(accepted, "set_from_string({:?}, {:?}) returned false; the documented grammar accepts it as {}", name, val, d);
                let now = after.iter().find(|(n, _)| *n == name.as_str()).map(|(_, v)| v.clone()).unwrap_or_default();
                vensure!(now == *d, "set_from_string({:?}, {:?}): option is now {} but the documented value is {}", name, val, now, d);
                labels.push("accepted");
                if val.chars().last().map(|c| c.is_ascii_alphabetic()).unwrap_or(false) || val.contains('-') {
                    nt = true;
                }
            }
        }
        return Outcome::pass_l(nt, labels);
    }
    // bulk == fold of singles, stopping at the first failure; an unknown key is a documented panic
    let sep = if case.sep_comma { "," } else { " " };
    // pairs whose text contains separators or '=' are not well-formed bulk items: skip those cases
    if case.pairs.iter().any(|(n, v)| n.is_empty() || v.is_empty() || n.contains(['=', ',', ' ']) || v.contains(['=', ' ', ',']) || v.chars().any(|c| c.is_whitespace()) || n.chars().any(|c| c.is_whitespace())) {
        return Outcome::pass_l(false, vec!["not_a_bulk_string"]);
    }
    let s: String = case.pairs.iter().map(|(n, v)| format!("{}={}", n, v)).collect::<Vec<_>>().join(sep);
    let mut model = DEFAULT.with(|d| d.clone());
    let mut expect_ok = true;
    let mut expect_panic = false;
    for (n, v) in &case.pairs {
        if !OPT_NAMES.contains(&n.as_str()) && model.verif_snapshot().iter().all(|(k, _)| *k != n.as_str()) {
            expect_panic = true;
            break;
        }
        if !model.set_from_string(n, v) {
            expect_ok = false;
            break;
        }
    }
    let r = std::panic::catch_unwind(std::panic::AssertUnwindSafe(|| o.set_bulk_from_string(&s)));
    match r {
        Err(_) => {
            vensure!(expect_panic, "set_bulk_from_string({:?}) panicked although every key is valid", s);
            labels.push("unknown_key_panic");
        }
        Ok(ok) => {
            vensure!(!expect_panic, "set_bulk_from_string({:?}) did not panic on an unknown key", s);
            vensure!(ok == expect_ok, "set_bulk_from_string({:?}) = {}, folding set_from_string gives {}", s, ok, expect_ok);
            vensure!(snapshot(&o) == snapshot(&model), "set_bulk_from_string({:?}) left options different from applying the pairs in order", s);
            nt = case.pairs.len() >= 2;
        }
    }
    Outcome::pass_l(nt, labels)
}

// ------------------------------------------------------------------ C37

#[derive(Serialize, Deserialize, Clone, Debug)]
struct CompCase {
    /// (gap words before the object, size in words >= 2, live?)
    objs: Vec<(u16, u16, bool)>,
}

fn c37(c: &mut Check) {
    let n = c.tier.pick(6_000, 400_000);
    c.section_procs(
        "forwarding-addresses",
        n,
        8,
        || {
            let gap = prop_oneof![4 => 0u16..4, 2 => 0u16..70, 1 => 0u16..600];
            let size = prop_oneof![4 => 4u16..12, 2 => 4u16..80, 1 => 60u16..70, 1 => 4u16..400];
            prop::collection::vec((gap, size, prop::bool::weighted(0.7)), 0..600).prop_map(|objs| CompCase { objs })
        },
        |case: &CompCase, env: &Env| {
            use mmtk::verif::compressor as comp;
            mmtk::verif::side_metadata::initialize();
            let specs = comp::specs();
            let region = mmtk::memory_manager::starting_heap_address().as_usize() + (env.thread + 1) * (64 << 20);
            let region = region & !(comp::REGION_BYTES - 1);
            if let Err(e) = mmtk::verif::side_metadata::map(&specs, addr(region), comp::REGION_BYTES) {
                return Outcome::Inconclusive { msg: format!("map: {}", e) };
            }
            // clear both bitmaps for the region
            specs[0].bzero_metadata(addr(region), comp::REGION_BYTES);
            specs[1].bzero_metadata(addr(region), comp::REGION_BYTES);
            type VM = ShadowVM<0>;
            let fwd = comp::Forwarding::<VM>::new();
            // lay the objects out (ShadowVM<0>: reference == object start, min object = 4 words header)
            let mut cursor = region;
            let mut placed: Vec<(usize, usize, bool)> = vec![];
            for (gap, words, live) in &case.objs {
                let start = cursor + (*gap as usize) * 8;
                let size = (*words as usize).max(4) * 8;
                if start + size > region + comp::REGION_BYTES - 4096 {
                    break;
                }
                RawObj::write_header(start, size, 0, 0, 3, 1 + placed.len() as u64);
                placed.push((start, size, *live));
                cursor = start + size;
            }
            for (start, _size, live) in &placed {
                if *live {
                    let o = ObjectReference::from_raw_address(addr(*start)).unwrap();
                    vensure!(fwd.mark(o), "marking object at {:#x} failed", start);
                }
            }
            let cursor_page = (cursor + 4095) & !4095;
            fwd.calculate_offset_vector(addr(region), addr(cursor_page));
            let mut to = region;
            let mut live_before = 0;
            let mut nt = false;
            let mut prev_new = 0usize;
            for (start, size, live) in &placed {
                if *live {
                    let got = fwd.forward(addr(*start)).as_usize();
                    vensure!(got == to, "forward({:#x}) = {:#x}, expected region start + live bytes before = {:#x} (object of {} bytes, {} live objects before)", start, got, to, size, live_before);
                    vensure!(got <= *start, "forward({:#x}) = {:#x} is above the original address", start, got);
                    vensure!(got >= prev_new, "forwarding not order preserving at {:#x}", start);
                    prev_new = got + size;
                    if start / 512 != (start + size - 1) / 512 && live_before >= 2 {
                        nt = true;
                    }
                    to += size;
                    live_before += 1;
                }
            }
            // scan_marked_objects reports exactly the live objects in address order
            let marked: Vec<usize> = fwd.marked_objects(addr(region), addr(cursor_page)).iter().map(|o| o.to_raw_address().as_usize()).collect();
            let expect: Vec<usize> = placed.iter().filter(|p| p.2).map(|p| p.0).collect();
            vensure!(marked == expect, "scan_marked_objects found {} objects, expected {}", marked.len(), expect.len());
            fwd.release();
            Outcome::pass_l(nt, vec![])
        },
    );
}

// ------------------------------------------------------------------ C27

#[derive(Serialize, Deserialize, Clone, Debug)]
struct RawCase {
    units: u32,
    grain_sel: u8,
    heads: u8,
    ppb_sel: u8,
    steps: Vec<u16>,
}

fn c27(c: &mut Check) {
    let n = c.tier.pick(1_500, 100_000);
    let known = c.is_known("raw-freelist-raise-high-water-clamp");
    c.section_procs(
        "grow-to-maximum",
        n,
        8,
        || (prop_oneof![3 => 1u32..3000, 2 => 1u32..40_000, 1 => 1u32..200_000], any::<u8>(), 1u8..5, 0u8..5, prop::collection::vec(any::<u16>(), 0..12)).prop_map(|(units, grain_sel, heads, ppb_sel, steps)| RawCase { units, grain_sel, heads, ppb_sel, steps }),
        move |case: &RawCase, _env: &Env| {
            use mmtk::util::os::{HugePageSupport, MmapProtection, MmapStrategy};
            use mmtk::verif::{FreeList, RawMemoryFreeList, FREELIST_FAILURE};
            let heads = case.heads as i32;
            // growth requests must be whole grains (debug precondition of grow_list_by_blocks)
            let grain: i32 = match case.grain_sel % 4 {
                0 => 1,
                1 => 2,
                2 => 8,
                _ => 1024,
            };
            let units = ((case.units as i32 + grain - 1) / grain) * grain;
            let pages = RawMemoryFreeList::size_in_pages(units, heads);
            let ppb: i32 = match case.ppb_sel {
                0 => 1,
                1 => 2,
                2 => 3,
                3 => 16,
                _ => RawMemoryFreeList::default_block_size(units, heads),
            };
            let table_bytes = pages as usize * 4096;
            // reserve [base, limit + guard) as PROT_NONE; the list maps over it with replace = true
            let guard = 64 * 1024usize;
            let total = table_bytes + guard;
            let base = unsafe { libc::mmap(std::ptr::null_mut(), total, libc::PROT_NONE, libc::MAP_PRIVATE | libc::MAP_ANONYMOUS | libc::MAP_NORESERVE, -1, 0) } as usize;
            if base == usize::MAX {
                return Outcome::Inconclusive { msg: "mmap reservation failed".into() };
            }
            let limit = base + table_bytes;
            let strategy = MmapStrategy { huge_page: HugePageSupport::No, prot: MmapProtection::ReadWrite, replace: true, reserve: false };
            let result = std::panic::catch_unwind(std::panic::AssertUnwindSafe(|| -> Result<bool, String> {
                let mut fl = RawMemoryFreeList::new(addr(base), addr(limit), ppb, units, grain, heads, strategy);
                let mut current = 0i32;
                let mut steps: Vec<i32> = case.steps.iter().map(|s| (((*s as i32 % (units / 2 + 1)) + grain - 1) / grain) * grain).filter(|s| *s > 0).collect();
                steps.push(units); // finally ask for everything that is left
                for s in steps {
                    let remaining = units - current;
                    let ask = s.min(remaining);
                    if ask == 0 {
                        break;
                    }
                    if !fl.grow_freelist(ask) {
                        return Err(format!("grow_freelist({}) returned false at {} of {} units", ask, current, units));
                    }
                    current += ask;
                }
                if current != units {
                    return Err(format!("only {} of {} units requested", current, units));
                }
                if fl.grow_freelist(grain) {
                    return Err(format!("grow_freelist({}) beyond the maximum {} returned true", grain, units));
                }
                // every unit is usable
                let mut got = 0;
                let mut seen = std::collections::HashSet::new();
                loop {
                    let u = fl.alloc(1);
                    if u == FREELIST_FAILURE {
                        break;
                    }
                    if u < 0 || u >= units || !seen.insert(u) {
                        return Err(format!("alloc(1) returned unit {} (units {}, duplicate or out of range)", u, units));
                    }
                    got += 1;
                    if got > units {
                        break;
                    }
                }
                if got != units {
                    return Err(format!("alloc(1) succeeded {} times, expected {}", got, units));
                }
                Ok(true)
            }));
            // guard region must still be PROT_NONE: probe with mincore-free technique (msync fails on PROT_NONE? no) -> read /proc/self/maps
            let maps = std::fs::read_to_string("/proc/self/maps").unwrap_or_default();
            let mut guard_ok = false;
            for line in maps.lines() {
                let mut it = line.split_whitespace();
                let range = it.next().unwrap_or("");
                let perms = it.next().unwrap_or("");
                if let Some((a, b)) = range.split_once('-') {
                    let (a, b) = (usize::from_str_radix(a, 16).unwrap_or(0), usize::from_str_radix(b, 16).unwrap_or(0));
                    if a <= limit && limit < b {
                        guard_ok = perms.starts_with("---");
                    }
                }
            }
            unsafe { libc::munmap(base as *mut libc::c_void, total) };
            let block_bytes = ppb as usize * 4096;
            let nt = table_bytes % block_bytes != 0;
            match result {
                Err(_) => {
                    if nt && known {
                        return Outcome::Known { signature: "raw-freelist-raise-high-water-clamp".into(), nontrivial: nt, labels: vec![] };
                    }
                    vfail!("growing a RawMemoryFreeList(units={}, grain={}, heads={}, pages_per_block={}, table {} pages) to its maximum panicked", units, grain, heads, ppb, pages)
                }
                Ok(Err(e)) => vfail!("RawMemoryFreeList(units={}, grain={}, heads={}, pages_per_block={}): {}", units, grain, heads, ppb, e),
                Ok(Ok(_)) => {}
            }
            vensure!(guard_ok, "memory at the list's limit {:#x} is no longer PROT_NONE: the list mapped beyond its limit (units={}, ppb={})", limit, units, ppb);
            Outcome::pass_l(nt, vec![])
        },
    );
}
