//! Whole-system (E1) property checks: generated cases run in `shadowvm` subprocesses.

use super::Entry;
use crate::e1::*;
use crate::gen::{self, Mix};
use crate::runner::{Check, Outcome};
use crate::shadow::case::*;

const TIMEOUT_S: u64 = 120;

fn known_list() -> Vec<crate::runner::KnownFinding> {
    crate::runner::load_known_findings().into_iter().filter(|k| k.status == "known").collect()
}

fn run_e1(c: &mut Check, section: &str, cases: u64, property: &'static str, also: &'static [&'static str], strat: fn() -> proptest::strategy::BoxedStrategy<Case>, nt: fn(&Verdict) -> (bool, Vec<&'static str>)) {
    let known = known_list();
    let threads = c.threads;
    c.shrink_iters = 150;
    c.also_properties = also.iter().map(|s| s.to_string()).collect();
    replay_saved_inputs(c, property, also, nt);
    c.section_threads(section, cases, threads, strat, move |case: &Case, _env| {
        let t0 = std::time::Instant::now();
        let res = run_case(case, TIMEOUT_S);
        let dt = t0.elapsed().as_secs_f64();
        if dt > 20.0 {
            if let Ok(dir) = std::env::var("VH_SAVE_SLOW") {
                let _ = std::fs::write(format!("{}/slow-{}-{}.json", dir, case.plan, case.ops.len()), serde_json::to_string(case).unwrap());
            }
        }
        if dt > 1.0 && std::env::var("VH_TIMING").is_ok() {
            eprintln!("slow case {:.1}s: plan={} heap={} opts={:?} ops={} churn={:?}", dt, case.plan, case.heap_kb, case.opts, case.ops.len(), case.ops.iter().filter_map(|o| if let Op::Churn { kb, .. } = o { Some(*kb) } else { None }).collect::<Vec<_>>());
        }
        outcome_for_case(case, property, also, res, &known, &nt)
    });
}

const COMMON: &str = "cases = generated mutator programs (alloc / barriered writes / root ops / region copies / GC requests / churn ...) x plan x 4 metadata layout variants x 1-4 workers x 1-3 mutators x plan options, each run in its own process against real MMTk with the shadow-heap oracle; distinct by structural hash of the case; ";

pub fn entries() -> Vec<Entry> {
    vec![
        Entry { id: "C01", rule: "generated programs x 11 plans; lock-step shadow-heap walk after every pause; non-trivial = >=1 GC with >=8 reachable objects and (>=1 object moved or >=1 unreachable object at GC time) and >=1 cross-space edge; distinct by structural hash of the case", run: c01 },
        Entry { id: "C02", rule: "allocation-heavy generated programs x 11 plans; every successful alloc result must be disjoint from the interval set {reachable objects at their current addresses} + {every allocation since the last pause}; non-trivial = >=1 allocation below the pre-GC high-water mark (recycled memory) after >=1 GC with survivors", run: c02 },
        Entry { id: "C03", rule: "generated legal (size, align, offset, semantics) tuples from a boundary-biased size table x 11 plans x alignment variants, interleaved with GCs and dirtying of every object; oracle = non-zero, (A+offset)%align==0, inside the space the plan maps the semantics to, all bytes zero; non-trivial = align > MIN and offset != 0, or recycled memory", run: c03 },
        Entry { id: "C04", rule: "generated programs with Immortal/Los/NonMoving allocations, pin/unpin, pinning and transitively pinning roots, defrag options; oracle = address unchanged across every pause while pinned/non-moving, unreachable immortal objects stay intact; non-trivial = >=1 moving GC while a fixed object was live, or an unreachable immortal object checked after >=2 GCs", run: c04 },
        Entry { id: "C05", rule: "GenCopy/GenImmix/StickyImmix programs that build old objects, then store young objects reachable only through barriered writes / region copies (slices that name their holder object and slices that do not) into old objects, then nursery GCs; oracle = shadow walk; non-trivial = >=1 nursery GC and >=1 young object reachable only via an old->young edge", run: c05 },
        Entry { id: "C06", rule: "programs with soft/weak/phantom reference objects registered at creation, finalizer registrations, late/never pops; oracle = stage-ordered reachability model (safety at every GC, completeness after forced exhaustive full-heap GCs); non-trivial = (>=1 reference cleared and >=1 retained) or >=1 finalizable object popped", run: c06 },
        Entry { id: "C07", rule: "programs ending episodes with forced exhaustive GCs on every plan (vo_bit build); oracle = enumerate_objects multiset == survivors, is_mmtk_object Some for survivors and None for reclaimed/moved-away addresses; non-trivial = >=1 reclaimed address checked and survivors in >=2 spaces", run: c07 },
        Entry { id: "C08", rule: "probe points after allocation and after GCs: word-aligned addresses around/inside objects for is_mmtk_object, interior pointers x max_search_bytes {1,2,7,8,9,d,d+1,d+2,4096,1MiB} for find_object_from_internal_pointer, addresses outside the heap; oracle = shadow interval map; non-trivial probe = unaligned pointer, pointer >= 4096 bytes into the object, or limit <= distance", run: c08 },
        Entry { id: "C09", rule: "allocate-drop-GC cycles (10..40 cycles quick) with generated size mixes incl. LOS/non-moving/weak/finalizers and, every third cycle, non-safepoint allocation attempts that are turned away because the heap is full, for every collecting plan; oracle = no out_of_memory, used_bytes after cycle k <= max(first three) + one chunk, free+used <= total; non-trivial = >=10 cycles", run: c09 },
        Entry { id: "C10", rule: "heaps filled with reachable data, then alloc_with_options over all 8 flag combinations x size classes (small..usize::MAX) x semantics, a quarter of the cases ending with a burst of reachable half-heap over-committing requests that may not wait for a GC until the space's address range is exhausted; oracle over callback counters: no OOM call when disallowed, no block_for_gc when not at safepoint, OOM only after a GC (or obviously too large), null on OOM; non-trivial = >=1 call returned null or called out_of_memory", run: c10 },
        Entry { id: "C11", rule: "generated programs x 11 plans x 1-4 workers x 1-3 mutators with the scheduler event log on; per collection: stop_all_mutators exactly once and before the first stop-the-world bucket opens, no stop-the-world packet and no scan_object/copy callback outside the stop..resume bracket (copy only, for the concurrent plan), every bound mutator scanned exactly once per root-scanning round, resume_mutators exactly once with no packet executing and none pending; racing forced GC requests from 2-4 mutator threads at once: every call returns true and only after a collection has ended since it was made; non-trivial = >=2 mutators bound and >=2 workers and >=2 collections", run: c11 },
        Entry { id: "C14", rule: "generated programs x 10 collecting plans x 1-4 workers: user GC requests (also back to back), allocation-triggered GCs, prepare_to_fork requested from inside a running GC, fork cycles; oracles: every accepted request is followed by a completed collection, a watchdog over the mirrored scheduler state reports 'all N workers parked, goal current or requested, no scheduler event for 8 s', after the program all workers are parked with no goal, parked counts of monitor and event log agree; non-trivial = >=2 collections and (>=1 fork request made during a GC or >=2 collections requested back to back)", run: c14 },
        Entry { id: "C15", rule: "generated programs x 11 plans x 1-4 workers with the scheduler event log on; every stop-the-world bucket other than Prepare is opened by the last parked worker (all N parked in the log, no packet executing) with every earlier enabled bucket open and empty (snapshot taken inside WorkBucket::update), in stage order; adds and starts of packets match by type, nothing pending and every stop-the-world bucket closed and empty at resume_mutators; in half of the cases the binding adds packets of its own to later stages (Closure, Release, Final) during each pause: all executed before the mutators resume; non-trivial = >=3 workers and >=1 bucket opened after packets had been added to it by packets of earlier buckets, or >=2 packets executing in parallel", run: c15 },
        Entry { id: "C12", rule: "ConcurrentImmix programs sized to cross the concurrent trigger, overwriting references of snapshot objects / region copies / new allocations during marking; oracle = shadow walk after every pause + survivors of snapshot; non-trivial = >=1 pointer overwrite while concurrent marking was in progress and >=2 pauses", run: c12 },
        Entry { id: "C13", rule: "programs with VM-side ephemeron tables incl. dependency chains of depth 0..6 whose values live in the default, non-moving, large-object and immortal spaces; oracle = is_reachable of the model's retained set at the first process_weak_refs call, closure of values traced in round j reachable at round j+1, true => another call / false => none, forward_weak_refs exactly when the plan needs it; non-trivial = >=3 rounds in one GC", run: c13 },
        Entry { id: "C16", rule: "histories of GCs and fork cycles (prepare_to_fork, join every worker thread, after_fork) x 1-4 workers; oracle = every worker exits exactly once, after_fork spawns N workers with ordinals 0..N-1, each respawned worker keeps its identity (the shared part handed to spawn_gc_thread) and ordinal, later GCs satisfy the shadow walk; non-trivial = >=2 fork cycles with GCs in between", run: c16 },
        Entry { id: "C24", rule: "complete enumeration of 11 plans x 4 ShadowVM metadata layouts (all-side, forwarding-in-header, header-heavy, permuted declaration order) x 2 feature builds (vo_bit / base), each instantiated in its own process; oracle: the address ranges [start, start + 2^(47 - log_region + log_bits - 3)) of all distinct side specs of all spaces are pairwise disjoint and inside the reserved range, and for 500+ heap addresses no two tables keep the field in the same byte; non-trivial = configuration with >= 2 VM side specs (every layout except header-heavy has >= 4)", run: c24 },
        Entry { id: "C31", rule: "address probes (0, heap/space edges +-8, 2^47, usize::MAX, 2000 uniform in-heap, 200 uniform 48-bit, object starts/ends) per plan after generated allocation/GC activity; oracle = object addresses resolve to their space, outside-heap addresses resolve to the empty SFT and are not in MMTk spaces, SFT non-empty => VM map descriptor is that space's; non-trivial = >=1 probe within 4 MiB of a heap edge", run: c31 },
        Entry { id: "C34", rule: "Immix-family programs with many GCs (nursery/full/defrag mixes, straddling objects); after every marking pause every hole get_next_available_lines yields for every allocated block is disjoint from lines overlapped by shadow-live objects; block-state byte round trip for all 256 bytes; non-trivial = >=1 live object straddling >=3 lines in a space with holes", run: c34 },
    ]
}

fn labels_common(v: &Verdict) -> Vec<&'static str> {
    let mut l = vec![];
    if cv(v, "gc") > 0 {
        l.push("has_gc");
    }
    if cv(v, "moved") > 0 {
        l.push("moved");
    }
    if cv(v, "gc_nursery") > 0 {
        l.push("nursery_gc");
    }
    if cv(v, "cross_space_edge") > 0 {
        l.push("cross_space_edge");
    }
    if cv(v, "alloc_null") > 0 {
        l.push("alloc_null");
    }
    l
}

fn c01(c: &mut Check) {
    let _ = COMMON;
    let n = c.tier.pick(1600, 60000);
    run_e1(c, "all-plans", n, "C01", &["C17"], || gen::case(&PLANS, Mix::BASIC, "C01", 120), |v| {
        let nt = cv(v, "gc") >= 1 && cv(v, "gc_with_ge8_live") >= 1 && (cv(v, "moved") > 0 || cv(v, "unreachable_at_gc") > 0) && cv(v, "cross_space_edge") > 0;
        (nt, labels_common(v))
    });
}

fn c02(c: &mut Check) {
    let n = c.tier.pick(1400, 60000);
    run_e1(c, "allocation-heavy", n, "C02", &[], || gen::case(&PLANS, Mix { churn_weight: 10, gc_weight: 8, ..Mix::BASIC }, "C02", 100), |v| {
        let nt = cv(v, "alloc_recycled") > 0 && cv(v, "gc") >= 1 && cv(v, "live_at_end") >= 1;
        (nt, labels_common(v))
    });
}

fn c03(c: &mut Check) {
    let n = c.tier.pick(1400, 60000);
    run_e1(c, "alloc-tuples", n, "C03", &[], || gen::case(&PLANS, Mix { churn_weight: 2, gc_weight: 4, region_copy: false, ..Mix::BASIC }, "C03", 140), |v| {
        let nt = cv(v, "alloc_align_offset") > 0 || cv(v, "alloc_recycled") > 0;
        (nt, labels_common(v))
    });
}

fn c04(c: &mut Check) {
    let n = c.tier.pick(1400, 60000);
    run_e1(c, "fixed-objects", n, "C04", &[], || gen::case(&PLANS, Mix { pins: true, ..Mix::BASIC }, "C04", 120), |v| {
        let nt = cv(v, "c04_moving_gc_with_fixed_object") > 0 || cv(v, "c04_unreachable_immortal_checked") > 0;
        let mut l = labels_common(v);
        if cv(v, "pin") > 0 {
            l.push("pinned");
        }
        if cv(v, "pinning_root") > 0 {
            l.push("pinning_root");
        }
        (nt, l)
    });
}

const GEN_PLANS: [&str; 3] = ["GenCopy", "GenImmix", "StickyImmix"];

fn c05(c: &mut Check) {
    let n = c.tier.pick(1200, 50000);
    run_e1(c, "old-to-young", n, "C05", &["C01"], || gen::case(&GEN_PLANS, Mix { old_young: 14, gc_weight: 10, churn_weight: 2, ..Mix::BASIC }, "C05", 140), |v| {
        let nt = cv(v, "gc_nursery") > 0 && cv(v, "young_only_via_old") > 0;
        let mut l = labels_common(v);
        if cv(v, "region_old_to_young") > 0 {
            l.push("region_copy_old_to_young");
        }
        if cv(v, "region_old_to_young_no_holder") > 0 {
            l.push("region_copy_slice_without_holder");
        }
        (nt, l)
    });
}

fn c06(c: &mut Check) {
    let n = c.tier.pick(1400, 60000);
    run_e1(c, "weak-and-finalizers", n, "C06", &[], || gen::case(&COLLECTING_PLANS, Mix { weak: true, finalizers: true, weak_pairs: 16, fin_objs: 8, gc_weight: 12, churn_weight: 1, ..Mix::BASIC }, "C06", 120), |v| {
        let nt = (cv(v, "ref_cleared") > 0 && cv(v, "ref_retained") > 0) || cv(v, "finalized_popped") > 0;
        let mut l = labels_common(v);
        if cv(v, "ref_cleared") > 0 {
            l.push("ref_cleared");
        }
        if cv(v, "finalized_popped") > 0 {
            l.push("finalized");
        }
        (nt, l)
    });
}

fn c07(c: &mut Check) {
    let n = c.tier.pick(1200, 50000);
    run_e1(c, "exhaustive-gc-enumeration", n, "C07", &[], || gen::case(&COLLECTING_PLANS, Mix { nursery_gc: false, gc_weight: 10, finalizers: true, dense: 6, ..Mix::BASIC }, "C07", 100), |v| {
        (cv(v, "c07_nontrivial") > 0, labels_common(v))
    });
}

fn c08(c: &mut Check) {
    let n = c.tier.pick(700, 30000);
    run_e1(c, "lookups", n, "C08", &[], || gen::case(&PLANS, Mix { probes: 10, churn_weight: 1, ..Mix::BASIC }, "C08", 80), |v| {
        (cv(v, "c08_internal_probe_nontrivial") > 0, labels_common(v))
    });
}

fn c09(c: &mut Check) {
    let n = c.tier.pick(120, 3000);
    let cycles = c.tier.pick(30u32, 300u32);
    let _ = cycles;
    run_e1(c, "alloc-drop-gc-cycles", n, "C09", &[], || gen::c09_case(false), |v| {
        let mut l = labels_common(v);
        let kb = cv(v, "c09_max_used_after_empty_gc_kb");
        if std::env::var("VH_C09_DIST").is_ok() {
            eprintln!("C09DIST plan={} base={} kb={}", PLANS[cv(v, "plan_idx") as usize % PLANS.len()], cv(v, "build_base"), kb);
        }
        l.push(if kb == 0 { "empty_gc_used_0" } else if kb <= 64 { "empty_gc_used_le_64k" } else if kb <= 256 { "empty_gc_used_le_256k" } else if kb <= 1024 { "empty_gc_used_le_1m" } else { "empty_gc_used_gt_1m" });
        (cv(v, "c09_cycles") >= 10, l)
    });
}

fn c10(c: &mut Check) {
    let n = c.tier.pick(900, 40000);
    run_e1(c, "alloc-options", n, "C10", &[], || gen::c10_case(), |v| {
        let nt = cv(v, "oom_called") > 0 || cv(v, "alloc_opts_null") > 0;
        let mut l = labels_common(v);
        if cv(v, "oom_obvious") > 0 {
            l.push("obvious_oom");
        }
        if cv(v, "overcommit_unbounded_attempt") > 0 {
            l.push("address_range_exhaustion_burst");
        }
        (nt, l)
    });
}

fn c11(c: &mut Check) {
    let n = c.tier.pick(1400, 60000);
    run_e1(c, "stw-bracket", n, "C11", &[], || gen::case(&PLANS, Mix { gc_weight: 12, churn_weight: 2, mutator_ops: true, ..Mix::BASIC }, "C11", 80), |v| {
        let nt = cv(v, "mutators_bound_at_end") >= 2 && cv(v, "workers") >= 2 && cv(v, "sched_pauses") >= 2;
        let mut l = labels_common(v);
        if cv(v, "sched_pauses") >= 2 {
            l.push("ge2_pauses");
        }
        if cv(v, "racing_gc") > 0 {
            l.push("racing_gc_requests");
        }
        (nt, l)
    });
}

fn c14(c: &mut Check) {
    let n = c.tier.pick(900, 40000);
    run_e1(c, "requests-and-wakeups", n, "C14", &["C16"], || gen::case(&COLLECTING_PLANS, Mix { fork: 6, gc_weight: 16, churn_weight: 2, big: false, mutator_ops: true, ..Mix::BASIC }, "C14", 60), |v| {
        let nt = cv(v, "sched_pauses") >= 2 && (cv(v, "fork_during_gc") > 0 || cv(v, "gc_requested") >= 2) && cv(v, "c14_idle_at_end") > 0;
        let mut l = labels_common(v);
        if cv(v, "fork_during_gc") > 0 {
            l.push("fork_requested_during_gc");
        }
        (nt, l)
    });
}

fn c24(c: &mut Check) {
    c.level = "other";
    c.extra("explanation", serde_json::json!("complete enumeration of a finite space (see coverage.rule and coverage.exhaustive); every element is evaluated against the real code, nothing is sampled"));
    c.extra("exhaustive", serde_json::json!(true));
    let known = known_list();
    let mut cfgs: Vec<Case> = vec![];
    for plan in PLANS.iter() {
        for variant in 0u8..4 {
            if *plan == "Compressor" && variant >= 2 {
                continue; // the Compressor asserts UNIFIED_OBJECT_REFERENCE_ADDRESS
            }
            for base in [false, true] {
                let mut opts = vec![];
                if base {
                    opts.push(("__build".to_string(), "base".to_string()));
                }
                cfgs.push(Case { plan: plan.to_string(), variant, heap_kb: 16000, dyn_heap: None, workers: 1, mutators: 1, opts, copy_spin: 0, focus: "C24".into(), ops: vec![Op::CheckSideSpecs { seed: c.seed as u32 ^ 0x5bd1e995 }] });
            }
        }
    }
    c.enumerate("plan-x-layout-x-build", cfgs, |case: &Case| {
        let res = run_case(case, TIMEOUT_S);
        outcome_for_case(case, "C24", &[], res, &known, &|v| (cv(v, "c24_checked") > 0 && cv(v, "c24_specs") >= 2, vec![]))
    });
}

fn c15(c: &mut Check) {
    let n = c.tier.pick(1400, 60000);
    run_e1(c, "bucket-order-and-packets", n, "C15", &[], || gen::case(&PLANS, Mix { gc_weight: 12, churn_weight: 2, weak: true, finalizers: true, ephemerons: true, ..Mix::BASIC }, "C15", 80), |v| {
        let nt = cv(v, "workers") >= 3 && (cv(v, "sched_opened_with_late_packets") > 0 || cv(v, "sched_max_parallel_packets") >= 2);
        let mut l = labels_common(v);
        if cv(v, "sched_max_parallel_packets") >= 2 {
            l.push("parallel_packets");
        }
        if cv(v, "vm_packets") > 0 {
            l.push("binding_added_packets");
        }
        (nt, l)
    });
}

const CONC: [&str; 1] = ["ConcurrentImmix"];

fn c12(c: &mut Check) {
    let n = c.tier.pick(800, 40000);
    run_e1(c, "concurrent-marking", n, "C12", &["C01", "C02"], || gen::c12_case(), |v| {
        let nt = cv(v, "overwrite_during_marking") > 0 && cv(v, "gc") >= 2;
        let mut l = labels_common(v);
        if cv(v, "pause_started_concurrent_marking") > 0 {
            l.push("concurrent_marking_started");
        }
        if cv(v, "hide_during_marking") > 0 {
            l.push("hide_during_marking");
        }
        if cv(v, "pause_started_concurrent_marking") >= 2 {
            l.push("ge2_marking_cycles");
        }
        (nt, l)
    });
    let _ = CONC;
}

fn c13(c: &mut Check) {
    let n = c.tier.pick(1000, 40000);
    run_e1(c, "ephemerons", n, "C13", &[], || gen::case(&COLLECTING_PLANS, Mix { ephemerons: true, gc_weight: 10, churn_weight: 1, ..Mix::BASIC }, "C13", 100), |v| {
        (cv(v, "weak_rounds_ge3") > 0, labels_common(v))
    });
}

fn c16(c: &mut Check) {
    let n = c.tier.pick(500, 20000);
    run_e1(c, "fork-cycles", n, "C16", &["C01", "C14"], || gen::case(&COLLECTING_PLANS, Mix { fork: 9, gc_weight: 10, churn_weight: 1, big: false, ..Mix::BASIC }, "C16", 60), |v| {
        (cv(v, "fork_cycle") >= 2 && cv(v, "gc") >= 2, labels_common(v))
    });
}

fn c31(c: &mut Check) {
    let n = c.tier.pick(400, 20000);
    run_e1(c, "address-resolution", n, "C31", &[], || gen::case(&PLANS, Mix { probes: 6, churn_weight: 1, ..Mix::BASIC }, "C31", 60), |v| {
        (cv(v, "c31_edge_probe") > 0, labels_common(v))
    });
}

const IMMIX_PLANS: [&str; 4] = ["Immix", "GenImmix", "StickyImmix", "ConcurrentImmix"];

fn c34(c: &mut Check) {
    let n = c.tier.pick(500, 20000);
    run_e1(c, "line-reuse", n, "C34", &["C02"], || gen::c34_case(), |v| {
        let mut l = labels_common(v);
        if cv(v, "gc") >= 128 {
            l.push("ge128_gcs_line_state_wrapped");
        }
        (cv(v, "c34_straddling_object_next_to_holes") > 0 && cv(v, "gc") >= 3, l)
    });
    let _ = IMMIX_PLANS;
}

/// Replay the saved inputs of this property: every file under corpus/<ID>/ (regression inputs of
/// fixed findings must pass; inputs of listed known findings must still show that finding).
fn replay_saved_inputs(c: &mut Check, property: &'static str, also: &'static [&'static str], nt: fn(&Verdict) -> (bool, Vec<&'static str>)) {
    if c.replay.is_some() {
        return;
    }
    let known_all = known_list();
    let dir = format!("{}/corpus/{}", crate::runner::verif_dir(), property);
    let mut files: Vec<std::path::PathBuf> = match std::fs::read_dir(&dir) {
        Ok(rd) => rd.filter_map(|e| e.ok()).map(|e| e.path()).filter(|p| p.extension().map(|x| x == "json").unwrap_or(false)).collect(),
        Err(_) => vec![],
    };
    files.sort();
    let known = c.known_entries();
    for f in files {
        let txt = std::fs::read_to_string(&f).unwrap();
        let v: serde_json::Value = match serde_json::from_str(&txt) {
            Ok(v) => v,
            Err(_) => continue,
        };
        let cv = if v.get("ops").is_some() { v.clone() } else { v["case"].clone() };
        let Ok(case) = serde_json::from_value::<Case>(cv) else { continue };
        let rel = format!("corpus/{}/{}", property, f.file_name().unwrap().to_string_lossy());
        let attempts = known.iter().find(|k| k.replay.as_deref() == Some(rel.as_str())).and_then(|k| k.replay_attempts).unwrap_or(1);
        let mut last = None;
        for _ in 0..attempts {
            let res = run_case(&case, TIMEOUT_S);
            let out = outcome_for_case(&case, property, also, res, &known_all, &nt);
            let stop = !matches!(out, Outcome::Pass { .. });
            last = Some(out);
            if stop {
                break;
            }
        }
        c.record_replay(&rel, last.unwrap(), &f.to_string_lossy());
    }
}

/// C28 (system part): page counters of every space of a real instance at the end of generated programs
/// (committed <= reserved, no underflow); the saved input of the listed Compressor finding is replayed.
pub fn c28_system(c: &mut Check) {
    let n = c.tier.pick(300, 20000);
    const P: [&str; 9] = ["SemiSpace", "GenCopy", "GenImmix", "MarkSweep", "PageProtect", "Immix", "MarkCompact", "StickyImmix", "ConcurrentImmix"];
    replay_saved_inputs(c, "C28", &[], |v| (cv(v, "gc") > 0, vec![]));
    run_e1_named(c, "system-page-counters", n, "C28", &[], || gen::case(&P, Mix { gc_weight: 10, churn_weight: 4, ..Mix::BASIC }, "C28", 60), |v| (cv(v, "gc") >= 2, vec![]));
}

/// C35 (system part): cells of a fresh MarkSweep block, one size class per case.
pub fn c35_system(c: &mut Check) {
    let n = c.tier.pick(150, 3000);
    run_e1_named(c, "fresh-block-cells", n, "C35", &[], || {
        use proptest::prelude::*;
        (0u16..u16::MAX, 0u8..4, 1u8..4)
            .prop_map(|(size, v, workers)| Case { plan: "MarkSweep".into(), variant: v, heap_kb: 65536, dyn_heap: None, workers, mutators: 1, opts: vec![], copy_spin: 0, focus: "C35".into(), ops: vec![Op::MsFill { m: 0, size }] })
            .boxed()
    }, |v| (cv(v, "msfill_checked") > 0, vec![]));
}

fn run_e1_named(c: &mut Check, section: &str, cases: u64, property: &'static str, also: &'static [&'static str], strat: fn() -> proptest::strategy::BoxedStrategy<Case>, nt: fn(&Verdict) -> (bool, Vec<&'static str>)) {
    let known = known_list();
    let threads = c.threads;
    c.shrink_iters = 100;
    c.section_threads(section, cases, threads, strat, move |case: &Case, _env| {
        let res = run_case(case, TIMEOUT_S);
        outcome_for_case(case, property, also, res, &known, &nt)
    });
}
