//! Real-thread race harnesses: C17 forwarding protocol, C18 mark/log/pin transitions, C19 block pool.

use super::Entry;
use crate::runner::{Check, Env, Outcome};
use crate::shadow::vm::{RawObj, ShadowVM};
use crate::{vensure, vfail};
use mmtk::util::{Address, ObjectReference};
use proptest::prelude::*;
use serde::{Deserialize, Serialize};
use std::sync::atomic::{AtomicUsize, Ordering};
use std::sync::{Arc, Barrier};

pub fn entries() -> Vec<Entry> {
    vec![
        Entry { id: "C17", rule: "cases = T in 2..8 OS threads released by a barrier running the policy sequence attempt_to_forward -> (winner: copy + forward, or decline by clearing the bits) / (losers: spin_and_get_forwarded_object) on one object, for metadata layouts with side bits, in-header bits sharing the pointer word, and header-heavy; seeded spin widening of the copy window; oracle = exactly one winner per round, all T results equal the winner's new reference (or the original if it declined), result is the value the winner stored; non-trivial = >= 2 threads observed BEING_FORWARDED or FORWARDED (lost the race) in the round", run: c17 },
        Entry { id: "C18", rule: "cases = T in 2..8 threads racing one transition (MarkState::test_and_mark, Immix attempt_mark loop, barrier log_object loop, pin_object, raw side/header CAS loops on generated specs) on the same object while neighbour threads flip other fields in the same metadata byte; oracle = exactly one success, final state = transitioned state, neighbour fields end at the value their own op sequence implies; non-trivial = >= 2 racers overlapped (measured by a shared arrival counter) or a neighbour thread was active", run: c18 },
        Entry { id: "C19", rule: "cases = histories of rounds: W pusher threads (own worker ordinals) push k_i distinct blocks (crossing the queue capacity 256) while P popper threads pop; barrier; optional flush_all concurrent with poppers; final drain; oracle = popped multiset is a duplicate-free subset of pushed, len() == pushed - popped at every barrier, after flush_all a drain pops exactly len() blocks, iterate_blocks visits exactly the held set; non-trivial = >= 1 queue overflow and >= 2 threads active in a round", run: c19 },
    ]
}

fn addr(a: usize) -> Address {
    unsafe { Address::from_usize(a) }
}

/// One data page per thread inside the heap range, with side metadata of the VM's specs mapped.
fn object_page<const V: usize>(thread: usize) -> usize {
    use mmtk::vm::ObjectModel;
    init_side_metadata_all_variants();
    let base = mmtk::memory_manager::starting_heap_address().as_usize() + (thread + 1) * (256 << 20);
    let specs: Vec<mmtk::util::metadata::side_metadata::SideMetadataSpec> = [
        *<ShadowVM<V> as ObjectModel<ShadowVM<V>>>::GLOBAL_LOG_BIT_SPEC,
        *<ShadowVM<V> as ObjectModel<ShadowVM<V>>>::LOCAL_FORWARDING_BITS_SPEC,
        *<ShadowVM<V> as ObjectModel<ShadowVM<V>>>::LOCAL_MARK_BIT_SPEC,
        *<ShadowVM<V> as ObjectModel<ShadowVM<V>>>::LOCAL_PINNING_BIT_SPEC,
    ]
    .iter()
    .filter_map(|s| match s {
        mmtk::util::metadata::MetadataSpec::OnSide(s) => Some(*s),
        _ => None,
    })
    .collect();
    mmtk::verif::side_metadata::map(&specs, addr(base), 1 << 16).expect("map object page");
    for s in &specs {
        s.bzero_metadata(addr(base), 1 << 16);
    }
    unsafe { std::ptr::write_bytes(base as *mut u8, 0, 1 << 16) };
    base
}

fn side_specs_of<const V: usize>() -> Vec<mmtk::util::metadata::side_metadata::SideMetadataSpec> {
    use mmtk::vm::ObjectModel;
    [
        *<ShadowVM<V> as ObjectModel<ShadowVM<V>>>::GLOBAL_LOG_BIT_SPEC,
        *<ShadowVM<V> as ObjectModel<ShadowVM<V>>>::LOCAL_FORWARDING_BITS_SPEC,
        *<ShadowVM<V> as ObjectModel<ShadowVM<V>>>::LOCAL_MARK_BIT_SPEC,
        *<ShadowVM<V> as ObjectModel<ShadowVM<V>>>::LOCAL_PINNING_BIT_SPEC,
        *<ShadowVM<V> as ObjectModel<ShadowVM<V>>>::LOCAL_LOS_MARK_NURSERY_SPEC,
    ]
    .iter()
    .filter_map(|s| match s {
        mmtk::util::metadata::MetadataSpec::OnSide(s) => Some(*s),
        _ => None,
    })
    .collect()
}

/// The reserved side metadata range must cover the VM specs of every layout variant used here.
pub fn init_side_metadata_all_variants() {
    let mut all = side_specs_of::<0>();
    all.extend(side_specs_of::<1>());
    all.extend(side_specs_of::<2>());
    all.extend(side_specs_of::<3>());
    mmtk::verif::side_metadata::initialize_with(&all);
}

// ------------------------------------------------------------------ C17

#[derive(Serialize, Deserialize, Clone, Debug)]
struct FwdCase {
    vm: u8,
    threads: u8,
    rounds: Vec<(bool, u16)>, // (winner declines, spin)
}

fn fwd_rounds<const V: usize>(case: &FwdCase, thread: usize) -> Outcome {
    use mmtk::verif::object_forwarding as of;
    let page = object_page::<V>(thread);
    let ro = crate::shadow::vm::variant(V).ref_offset;
    let t = (case.threads as usize).clamp(2, 8);
    let mut nontrivial = false;
    for (ri, (decline, spin)) in case.rounds.iter().enumerate() {
        // a fresh from-object and a to-space cell per round
        let from_start = page + (ri % 64) * 256;
        let to_start = page + 32768 + (ri % 64) * 256;
        RawObj::write_header(from_start, 64, 0, 0, 3, 1000 + ri as u64);
        unsafe {
            *(from_start as *mut u64) = 0;
            *((from_start + 8) as *mut u64) = 0;
        }
        let from = ObjectReference::from_raw_address(addr(from_start + ro)).unwrap();
        let to = ObjectReference::from_raw_address(addr(to_start + ro)).unwrap();
        of::clear_forwarding_bits::<ShadowVM<V>>(from);
        let barrier = Arc::new(Barrier::new(t));
        let copies = Arc::new(AtomicUsize::new(0));
        let losers = Arc::new(AtomicUsize::new(0));
        let decline = *decline;
        let spin = *spin as usize;
        let results: Vec<(usize, bool)> = std::thread::scope(|s| {
            let hs: Vec<_> = (0..t)
                .map(|_| {
                    let barrier = barrier.clone();
                    let copies = copies.clone();
                    let losers = losers.clone();
                    s.spawn(move || {
                        barrier.wait();
                        let status = of::attempt_to_forward::<ShadowVM<V>>(from);
                        if of::state_is_forwarded_or_being_forwarded(status) {
                            losers.fetch_add(1, Ordering::SeqCst);
                            let r = of::spin_and_get_forwarded_object::<ShadowVM<V>>(from, status);
                            (r.to_raw_address().as_usize(), false)
                        } else {
                            // winner: "copy" (widened window), then publish or decline
                            copies.fetch_add(1, Ordering::SeqCst);
                            for _ in 0..spin {
                                std::hint::spin_loop();
                            }
                            if decline {
                                of::clear_forwarding_bits::<ShadowVM<V>>(from);
                                (from.to_raw_address().as_usize(), true)
                            } else {
                                unsafe { std::ptr::copy_nonoverlapping((from_start + 16) as *const u8, (to_start + 16) as *mut u8, 48) };
                                // what forward_object does after ObjectModel::copy
                                publish::<V>(from, to);
                                (to.to_raw_address().as_usize(), true)
                            }
                        }
                    })
                })
                .collect();
            hs.into_iter().map(|h| h.join().unwrap()).collect()
        });
        let ncopies = copies.load(Ordering::SeqCst);
        // a thread that arrives after a declining winner cleared the bits legitimately wins again:
        // only the non-declining protocol guarantees a single copy
        if !decline {
            vensure!(ncopies == 1, "round {}: {} threads won attempt_to_forward (copied) the same object, layout variant {}", ri, ncopies, V);
            let expect = to.to_raw_address().as_usize();
            for (r, _w) in &results {
                vensure!(*r == expect, "round {}: a tracer obtained {:#x}, the winner stored {:#x} (variant {})", ri, r, expect, V);
            }
            vensure!(of::is_forwarded::<ShadowVM<V>>(from), "round {}: object not in FORWARDED state after the round", ri);
            vensure!(of::read_forwarding_pointer::<ShadowVM<V>>(from) == to, "round {}: forwarding pointer reads {:?}, expected {:?}", ri, of::read_forwarding_pointer::<ShadowVM<V>>(from), to);
        } else {
            vensure!(ncopies >= 1, "round {}: nobody won", ri);
            for (r, _w) in &results {
                vensure!(*r == from.to_raw_address().as_usize(), "round {}: winner declined but a tracer obtained {:#x} instead of the original {:#x}", ri, r, from.to_raw_address().as_usize());
            }
        }
        if losers.load(Ordering::SeqCst) >= 2 || (losers.load(Ordering::SeqCst) >= 1 && t == 2) {
            nontrivial = true;
        }
    }
    Outcome::pass_l(nontrivial, vec![])
}

/// The tail of `object_forwarding::forward_object` (after `ObjectModel::copy`): publish the new reference.
fn publish<const V: usize>(from: ObjectReference, to: ObjectReference) {
    use mmtk::vm::ObjectModel;
    use mmtk::verif::object_forwarding as of;
    type OM<const V: usize> = ShadowVM<V>;
    let fp = <OM<V> as ObjectModel<ShadowVM<V>>>::LOCAL_FORWARDING_POINTER_SPEC;
    let fb = <OM<V> as ObjectModel<ShadowVM<V>>>::LOCAL_FORWARDING_BITS_SPEC;
    match (&*fp, &*fb) {
        (mmtk::util::metadata::MetadataSpec::InHeader(p), mmtk::util::metadata::MetadataSpec::InHeader(b)) if b.bit_offset - p.bit_offset >= 0 && b.bit_offset - p.bit_offset < 64 => {
            let shift = b.bit_offset - p.bit_offset;
            fp.store_atomic::<ShadowVM<V>, usize>(from, to.to_raw_address().as_usize() | (0b11usize << shift), None, Ordering::SeqCst);
        }
        _ => {
            of::write_forwarding_pointer::<ShadowVM<V>>(from, to);
            fb.store_atomic::<ShadowVM<V>, u8>(from, 0b11, None, Ordering::SeqCst);
        }
    }
}

#[derive(Serialize, Deserialize, Clone, Debug)]
struct FwdGroupCase {
    vm: u8,
    /// tracers per object (2..=3); objects per group is 4 (they share one side-metadata byte)
    tracers: u8,
    rounds: u8,
    spin: u16,
}

/// Four adjacent 8-byte "objects" whose side forwarding bits share one metadata byte, each traced by
/// several threads at once: a CAS on one object's bits can fail because a *neighbour's* bits changed.
fn fwd_group_rounds<const V: usize>(case: &FwdGroupCase, thread: usize) -> Outcome {
    use mmtk::verif::object_forwarding as of;
    let page = object_page::<V>(thread);
    let ro = crate::shadow::vm::variant(V).ref_offset;
    let tr = (case.tracers as usize).clamp(2, 3);
    let mut nontrivial = false;
    for ri in 0..(case.rounds as usize % 24 + 4) {
        let base = page + 8192 + (ri % 128) * 64;
        let to_base = page + 49152 + (ri % 128) * 64;
        let objs: Vec<(ObjectReference, ObjectReference)> = (0..4)
            .map(|k| {
                unsafe { *((base + 8 * k) as *mut u64) = 0 };
                (ObjectReference::from_raw_address(addr(base + 8 * k + ro)).unwrap(), ObjectReference::from_raw_address(addr(to_base + 8 * k + ro)).unwrap())
            })
            .collect();
        for (f, _) in &objs {
            of::clear_forwarding_bits::<ShadowVM<V>>(*f);
        }
        let barrier = Arc::new(Barrier::new(4 * tr));
        let copies: Vec<Arc<AtomicUsize>> = (0..4).map(|_| Arc::new(AtomicUsize::new(0))).collect();
        let losers = Arc::new(AtomicUsize::new(0));
        let spin = case.spin as usize;
        let results: Vec<(usize, usize)> = std::thread::scope(|s| {
            let mut hs = vec![];
            for k in 0..4 {
                for _ in 0..tr {
                    let (from, to) = objs[k];
                    let barrier = barrier.clone();
                    let copies = copies[k].clone();
                    let losers = losers.clone();
                    hs.push(s.spawn(move || {
                        barrier.wait();
                        let status = of::attempt_to_forward::<ShadowVM<V>>(from);
                        if of::state_is_forwarded_or_being_forwarded(status) {
                            losers.fetch_add(1, Ordering::SeqCst);
                            let r = of::spin_and_get_forwarded_object::<ShadowVM<V>>(from, status);
                            (k, r.to_raw_address().as_usize())
                        } else {
                            copies.fetch_add(1, Ordering::SeqCst);
                            for _ in 0..spin {
                                std::hint::spin_loop();
                            }
                            publish::<V>(from, to);
                            (k, to.to_raw_address().as_usize())
                        }
                    }));
                }
            }
            hs.into_iter().map(|h| h.join().unwrap()).collect()
        });
        for k in 0..4 {
            let n = copies[k].load(Ordering::SeqCst);
            vensure!(n == 1, "round {}: object {} of a group sharing one forwarding-bits byte was copied by {} tracers (variant {})", ri, k, n, V);
        }
        for (k, r) in &results {
            let expect = objs[*k].1.to_raw_address().as_usize();
            vensure!(*r == expect, "round {}: a tracer of object {} obtained {:#x}, the winner stored {:#x}", ri, k, r, expect);
        }
        if losers.load(Ordering::SeqCst) >= 4 {
            nontrivial = true;
        }
    }
    Outcome::pass_l(nontrivial, vec![])
}

fn c17(c: &mut Check) {
    let ng = c.tier.pick(600, 60_000);
    c.section_procs(
        "neighbour-groups-side-bits",
        ng,
        2,
        || (0u8..2, 2u8..4, any::<u8>(), prop_oneof![2 => Just(0u16), 2 => 0u16..300, 1 => 0u16..3000]).prop_map(|(vm, tracers, rounds, spin)| FwdGroupCase { vm, tracers, rounds, spin }),
        |case: &FwdGroupCase, env: &Env| match case.vm {
            // the two layout variants that keep the forwarding bits on the side
            0 => fwd_group_rounds::<0>(case, env.thread),
            _ => fwd_group_rounds::<3>(case, env.thread),
        },
    );
    let n = c.tier.pick(600, 60_000);
    c.section_procs(
        "forwarding-races",
        n,
        4,
        || (0u8..3, 2u8..9, prop::collection::vec((prop::bool::weighted(0.2), prop_oneof![2 => Just(0u16), 2 => 0u16..200, 1 => 0u16..5000]), 4..24)).prop_map(|(vm, threads, rounds)| FwdCase { vm, threads, rounds }),
        |case: &FwdCase, env: &Env| match case.vm {
            0 => fwd_rounds::<0>(case, env.thread),
            1 => fwd_rounds::<1>(case, env.thread),
            _ => fwd_rounds::<2>(case, env.thread),
        },
    );
}

// ------------------------------------------------------------------ C18

thread_local! { static PANIC_NOTE: std::cell::RefCell<Option<String>> = const { std::cell::RefCell::new(None) }; }

fn panic_text(e: Box<dyn std::any::Any + Send>) -> String {
    if let Some(s) = e.downcast_ref::<String>() {
        s.clone()
    } else if let Some(s) = e.downcast_ref::<&str>() {
        s.to_string()
    } else {
        "panic".to_string()
    }
}

#[derive(Serialize, Deserialize, Clone, Debug)]
struct TransCase {
    vm: u8,
    kind: u8,
    threads: u8,
    neighbours: u8,
    rounds: u8,
    slot: u8,
}

fn trans_rounds<const V: usize>(case: &TransCase, thread: usize, known_pin: bool) -> Outcome {
    use mmtk::verif::transitions as tr;
    use mmtk::vm::ObjectModel;
    let page = object_page::<V>(thread);
    let ro = crate::shadow::vm::variant(V).ref_offset;
    let t = (case.threads as usize).clamp(2, 8);
    let nb = (case.neighbours as usize) % 3;
    let mut overlapped = false;
    let mut known_hit = false;
    let ms = tr::MarkState::new();
    for ri in 0..(case.rounds as usize % 12 + 1) {
        // objects are 8 bytes apart in side metadata terms (min object size): neighbours share metadata bytes
        let slot = (case.slot as usize % 8) + 8 * (ri % 16);
        let start = page + 4096 + slot * 32;
        for k in 0..4usize {
            RawObj::write_header(start + k * 32 - 32 * (slot % 4).min(0), 32, 0, 0, 3, 1);
        }
        let obj = ObjectReference::from_raw_address(addr(start + ro)).unwrap();
        // neighbours: the objects at +-8 bytes granularity (side bits in the same metadata byte)
        let neigh: Vec<ObjectReference> = (1..=nb).map(|k| ObjectReference::from_raw_address(addr(start + ro + 8 * k)).unwrap()).collect();
        // initial state
        let kind = case.kind % 5;
        match kind {
            0 | 1 => <ShadowVM<V> as ObjectModel<ShadowVM<V>>>::LOCAL_MARK_BIT_SPEC.store_atomic::<ShadowVM<V>, u8>(obj, 0, None, Ordering::SeqCst),
            2 => <ShadowVM<V> as ObjectModel<ShadowVM<V>>>::GLOBAL_LOG_BIT_SPEC.store_atomic::<ShadowVM<V>, u8>(obj, 1, None, Ordering::SeqCst),
            _ => {
                let _ = tr::unpin_object::<ShadowVM<V>>(obj);
            }
        }
        let barrier = Arc::new(Barrier::new(t + neigh.len()));
        let arrived = Arc::new(AtomicUsize::new(0));
        let finished = Arc::new(AtomicUsize::new(0));
        let max_overlap = Arc::new(AtomicUsize::new(0));
        let ms_ref = &ms;
        let (successes, neighbour_final): (usize, Vec<(u8, u8)>) = std::thread::scope(|s| {
            let hs: Vec<_> = (0..t)
                .map(|_| {
                    let barrier = barrier.clone();
                    let arrived = arrived.clone();
                    let finished = finished.clone();
                    let max_overlap = max_overlap.clone();
                    s.spawn(move || {
                        barrier.wait();
                        let a = arrived.fetch_add(1, Ordering::SeqCst) + 1;
                        let f = finished.load(Ordering::SeqCst);
                        max_overlap.fetch_max(a.saturating_sub(f), Ordering::SeqCst);
                        let ok = match kind {
                            0 => ms_ref.test_and_mark::<ShadowVM<V>>(obj),
                            1 => tr::immix_attempt_mark::<ShadowVM<V>>(obj, 1),
                            2 => tr::barrier_log_object::<ShadowVM<V>>(obj),
                            _ => tr::pin_object::<ShadowVM<V>>(obj),
                        };
                        finished.fetch_add(1, Ordering::SeqCst);
                        ok
                    })
                })
                .collect();
            // neighbour threads flip the same kind of bit of adjacent objects
            let nhs: Vec<_> = neigh
                .iter()
                .map(|n| {
                    let n = *n;
                    let barrier = barrier.clone();
                    s.spawn(move || {
                        barrier.wait();
                        let mut last = 0u8;
                        let flips: u32 = std::env::var("VH_C18_FLIPS").ok().and_then(|s| s.parse().ok()).unwrap_or(40);
                        for i in 0..flips {
                            let i = i as u8;
                            let v = i & 1;
                            match kind {
                                0 | 1 => <ShadowVM<V> as ObjectModel<ShadowVM<V>>>::LOCAL_MARK_BIT_SPEC.store_atomic::<ShadowVM<V>, u8>(n, v, None, Ordering::SeqCst),
                                2 => <ShadowVM<V> as ObjectModel<ShadowVM<V>>>::GLOBAL_LOG_BIT_SPEC.store_atomic::<ShadowVM<V>, u8>(n, v, None, Ordering::SeqCst),
                                _ => <ShadowVM<V> as ObjectModel<ShadowVM<V>>>::LOCAL_PINNING_BIT_SPEC.store_atomic::<ShadowVM<V>, u8>(n, v, None, Ordering::SeqCst),
                            }
                            last = v;
                        }
                        let got = match kind {
                            0 | 1 => <ShadowVM<V> as ObjectModel<ShadowVM<V>>>::LOCAL_MARK_BIT_SPEC.load_atomic::<ShadowVM<V>, u8>(n, None, Ordering::SeqCst),
                            2 => <ShadowVM<V> as ObjectModel<ShadowVM<V>>>::GLOBAL_LOG_BIT_SPEC.load_atomic::<ShadowVM<V>, u8>(n, None, Ordering::SeqCst),
                            _ => <ShadowVM<V> as ObjectModel<ShadowVM<V>>>::LOCAL_PINNING_BIT_SPEC.load_atomic::<ShadowVM<V>, u8>(n, None, Ordering::SeqCst),
                        };
                        (last, got)
                    })
                })
                .collect();
            let mut panics: Vec<String> = vec![];
            let mut succ = 0;
            for h in hs {
                match h.join() {
                    Ok(true) => succ += 1,
                    Ok(false) => {}
                    Err(e) => panics.push(panic_text(e)),
                }
            }
            let mut nf = vec![];
            for h in nhs {
                match h.join() {
                    Ok(v) => nf.push(v),
                    Err(e) => panics.push(panic_text(e)),
                }
            }
            if !panics.is_empty() {
                PANIC_NOTE.with(|p| *p.borrow_mut() = Some(panics.join(" | ")));
            }
            (succ, nf)
        });
        if let Some(p) = PANIC_NOTE.with(|p| p.borrow_mut().take()) {
            let name = ["MarkState::test_and_mark", "Immix attempt_mark", "barrier log_object", "pin_object", "pin_object"][kind as usize];
            vfail!("round {}: a thread racing {} (variant {}, {} neighbours) panicked: {}", ri, name, V, neigh.len(), p);
        }
        if max_overlap.load(Ordering::SeqCst) >= 2 || !neigh.is_empty() {
            overlapped = true;
        }
        let final_ok = match kind {
            0 | 1 => <ShadowVM<V> as ObjectModel<ShadowVM<V>>>::LOCAL_MARK_BIT_SPEC.load_atomic::<ShadowVM<V>, u8>(obj, None, Ordering::SeqCst) == 1,
            2 => <ShadowVM<V> as ObjectModel<ShadowVM<V>>>::GLOBAL_LOG_BIT_SPEC.load_atomic::<ShadowVM<V>, u8>(obj, None, Ordering::SeqCst) == 0,
            _ => tr::is_pinned::<ShadowVM<V>>(obj),
        };
        let name = ["MarkState::test_and_mark", "Immix attempt_mark", "barrier log_object", "pin_object", "pin_object"][kind as usize];
        if successes != 1 || !final_ok {
            if kind >= 3 && successes == 0 && !neigh.is_empty() && known_pin {
                known_hit = true;
            } else {
                vfail!("round {}: {} threads racing {} on one object: {} observed success, final state {} (variant {}, {} neighbour threads flipping adjacent bits)", ri, t, name, successes, if final_ok { "transitioned" } else { "NOT transitioned" }, V, neigh.len());
            }
        }
        for (i, (want, got)) in neighbour_final.iter().enumerate() {
            vensure!(want == got, "round {}: neighbour {} of the raced object ended with {} but its own last store was {} ({}; variant {})", ri, i, got, want, name, V);
        }
    }
    if known_hit {
        return Outcome::Known { signature: "pin-object-single-cas-spurious-failure".into(), nontrivial: overlapped, labels: vec![] };
    }
    Outcome::pass_l(overlapped, vec![])
}

#[derive(Serialize, Deserialize, Clone, Debug)]
struct RawCasCase {
    side: bool,
    log_bits: u8,
    bitpos: u8,
    threads: u8,
    neighbours: u8,
}

fn c18(c: &mut Check) {
    let n = c.tier.pick(500, 50_000);
    let known_pin = c.is_known("pin-object-single-cas-spurious-failure");
    c.section_procs(
        "transition-helpers",
        n,
        4,
        || (0u8..3, 0u8..5, 2u8..9, 0u8..3, any::<u8>(), any::<u8>()).prop_map(|(vm, kind, threads, neighbours, rounds, slot)| TransCase { vm, kind, threads, neighbours, rounds, slot }),
        move |case: &TransCase, env: &Env| match case.vm {
            0 => trans_rounds::<0>(case, env.thread, known_pin),
            1 => trans_rounds::<1>(case, env.thread, known_pin),
            _ => trans_rounds::<2>(case, env.thread, known_pin),
        },
    );
    // generic CAS-loop transition on arbitrary header positions / side widths
    c.section_procs(
        "raw-cas-loops",
        n,
        4,
        || (any::<bool>(), 0u8..3, 0u8..64, 2u8..9, 0u8..3).prop_map(|(side, log_bits, bitpos, threads, neighbours)| RawCasCase { side, log_bits, bitpos, threads, neighbours }),
        |case: &RawCasCase, env: &Env| {
            use mmtk::util::metadata::header_metadata::HeaderMetadataSpec;
            use mmtk::util::metadata::side_metadata::SideMetadataSpec;
            init_side_metadata_all_variants();
            let t = (case.threads as usize).clamp(2, 8);
            let bits = 1usize << case.log_bits; // 1, 2, 4 bits
            let base = mmtk::memory_manager::starting_heap_address().as_usize() + (env.thread + 1) * (256 << 20) + (64 << 20);
            let spec = SideMetadataSpec { name: "verif-race", is_global: false, offset: 0x2000_0000, log_num_of_bits: case.log_bits as usize, log_bytes_in_region: 3 };
            if mmtk::verif::side_metadata::map(&[spec], addr(base), 4096).is_err() {
                return Outcome::Inconclusive { msg: "map".into() };
            }
            spec.bzero_metadata(addr(base), 4096);
            let mut hdr = [0u64; 4];
            let header = Address::from_mut_ptr(hdr.as_mut_ptr());
            let bitpos = (case.bitpos as usize / bits * bits) as isize;
            let hspec = HeaderMetadataSpec { bit_offset: if (bitpos as usize % 8) + bits > 8 { bitpos - (bitpos % 8) } else { bitpos }, num_of_bits: bits };
            let target_val: u8 = ((1u16 << bits) - 1) as u8;
            let side = case.side;
            let nb = case.neighbours as usize % 3;
            let obj = addr(base + 64);
            let barrier = Arc::new(Barrier::new(t + nb));
            // transition: 0 -> all-ones, via load + compare_exchange loop
            let (succ, neigh_ok) = std::thread::scope(|s| {
                let hs: Vec<_> = (0..t)
                    .map(|_| {
                        let barrier = barrier.clone();
                        s.spawn(move || {
                            barrier.wait();
                            loop {
                                let old: u8 = if side { spec.load_atomic::<u8>(obj, Ordering::SeqCst) } else { hspec.load_atomic::<u8>(header, None, Ordering::SeqCst) };
                                if old == target_val {
                                    return false;
                                }
                                let r = if side { spec.compare_exchange_atomic::<u8>(obj, old, target_val, Ordering::SeqCst, Ordering::SeqCst) } else { hspec.compare_exchange::<u8>(header, old, target_val, None, Ordering::SeqCst, Ordering::SeqCst) };
                                if r.is_ok() {
                                    return true;
                                }
                            }
                        })
                    })
                    .collect();
                let nhs: Vec<_> = (0..nb)
                    .map(|k| {
                        let barrier = barrier.clone();
                        s.spawn(move || {
                            barrier.wait();
                            // another field in the same metadata byte
                            let nobj = addr(base + 64 + 8 * (k + 1));
                            let per_byte = 8 / bits;
                            let my_slot = (hspec.bit_offset.rem_euclid(8) as usize) / bits;
                            let other_slot = (my_slot + 1 + k) % per_byte;
                            let nh = HeaderMetadataSpec { bit_offset: hspec.bit_offset - hspec.bit_offset.rem_euclid(8) + (other_slot * bits) as isize, num_of_bits: bits };
                            let mut last = 0u8;
                            for i in 0..60u8 {
                                let v = i & 1;
                                if side {
                                    spec.store_atomic::<u8>(nobj, v, Ordering::SeqCst);
                                } else if other_slot != my_slot {
                                    nh.store_atomic::<u8>(header, v, None, Ordering::SeqCst);
                                }
                                last = v;
                            }
                            let got = if side { spec.load_atomic::<u8>(nobj, Ordering::SeqCst) } else if other_slot != my_slot { nh.load_atomic::<u8>(header, None, Ordering::SeqCst) } else { last };
                            got == last
                        })
                    })
                    .collect();
                let succ = hs.into_iter().map(|h| h.join().unwrap()).filter(|b| *b).count();
                let nok = nhs.into_iter().map(|h| h.join().unwrap()).all(|b| b);
                (succ, nok)
            });
            let fin: u8 = if side { spec.load_atomic::<u8>(obj, Ordering::SeqCst) } else { hspec.load_atomic::<u8>(header, None, Ordering::SeqCst) };
            vensure!(succ == 1, "{} threads racing a 0 -> {:#x} CAS loop on a {}-bit {} field (bit offset {}): {} successes", t, target_val, bits, if side { "side" } else { "header" }, hspec.bit_offset, succ);
            vensure!(fin == target_val, "final field value {:#x}, expected {:#x}", fin, target_val);
            vensure!(neigh_ok, "a neighbouring field in the same metadata byte lost its last store");
            Outcome::pass_l(nb > 0 || t >= 3, vec![])
        },
    );
}

// ------------------------------------------------------------------ C19

#[derive(Serialize, Deserialize, Clone, Debug)]
struct PoolCase {
    workers: u8,
    rounds: Vec<PoolRound>,
}

#[derive(Serialize, Deserialize, Clone, Debug)]
struct PoolRound {
    pushes: Vec<u16>,
    poppers: u8,
    pops_each: u16,
    flush: bool,
    flush_with_poppers: bool,
}

fn c19(c: &mut Check) {
    let n = c.tier.pick(1_500, 150_000);
    c.section(
        "push-pop-flush",
        n,
        || {
            let round = (prop::collection::vec(prop_oneof![3 => 0u16..40, 2 => 200u16..700, 1 => Just(256u16), 1 => Just(257u16)], 1..5), 0u8..5, 0u16..600, any::<bool>(), any::<bool>()).prop_map(|(pushes, poppers, pops_each, flush, flush_with_poppers)| PoolRound { pushes, poppers, pops_each, flush, flush_with_poppers });
            (1u8..5, prop::collection::vec(round, 1..6)).prop_map(|(workers, rounds)| PoolCase { workers, rounds })
        },
        |case: &PoolCase, _env: &Env| {
            use mmtk::verif::blockpool::*;
            use std::collections::HashSet;
            let w = case.workers as usize;
            // BlockPool is shared between GC workers inside BlockPageResource (which asserts Sync for it)
            struct SyncPool(BlockPool<Block>);
            unsafe impl Sync for SyncPool {}
            impl std::ops::Deref for SyncPool {
                type Target = BlockPool<Block>;
                fn deref(&self) -> &BlockPool<Block> {
                    &self.0
                }
            }
            let pool = SyncPool(BlockPool::new(w));
            let mut next_block = 1usize;
            let mut held: HashSet<usize> = HashSet::new();
            let mut overflow = false;
            let mut multi = false;
            let mut per_worker_count = vec![0usize; w];
            for (ri, round) in case.rounds.iter().enumerate() {
                // distinct blocks for each pusher
                let mut batches: Vec<Vec<usize>> = vec![];
                for (wi, k) in round.pushes.iter().enumerate().take(w) {
                    let mut b = vec![];
                    for _ in 0..*k {
                        b.push(next_block * Block::BYTES);
                        next_block += 1;
                    }
                    per_worker_count[wi] += b.len();
                    if per_worker_count[wi] > QUEUE_CAPACITY {
                        overflow = true;
                    }
                    batches.push(b);
                }
                let poppers = round.poppers as usize;
                if batches.len() + poppers >= 2 {
                    multi = true;
                }
                let pool_ref = &pool;
                let popped: Vec<Vec<usize>> = std::thread::scope(|s| {
                    let ph: Vec<_> = batches
                        .iter()
                        .enumerate()
                        .map(|(wi, b)| {
                            s.spawn(move || {
                                set_current_worker_ordinal(wi);
                                for a in b {
                                    pool_ref.push(Block::from_aligned_address(addr(*a)));
                                }
                            })
                        })
                        .collect();
                    let qh: Vec<_> = (0..poppers)
                        .map(|_| {
                            let n = round.pops_each;
                            s.spawn(move || {
                                let mut got = vec![];
                                for _ in 0..n {
                                    if let Some(b) = pool_ref.pop() {
                                        got.push(b.start().as_usize());
                                    }
                                }
                                got
                            })
                        })
                        .collect();
                    for h in ph {
                        h.join().unwrap();
                    }
                    qh.into_iter().map(|h| h.join().unwrap()).collect()
                });
                for b in &batches {
                    for a in b {
                        held.insert(*a);
                    }
                }
                for got in &popped {
                    for a in got {
                        vensure!(held.remove(a), "round {}: popped block {:#x} that is not held (never pushed, or popped twice)", ri, a);
                    }
                }
                vensure!(pool.len() == held.len(), "round {}: len() = {} but {} blocks are held", ri, pool.len(), held.len());
                let mut seen: HashSet<usize> = HashSet::new();
                let mut dup = None;
                pool.iterate_blocks(&mut |b: Block| {
                    if !seen.insert(b.start().as_usize()) {
                        dup = Some(b.start().as_usize());
                    }
                });
                vensure!(dup.is_none(), "round {}: iterate_blocks visited {:#x?} twice", ri, dup);
                vensure!(seen == held, "round {}: iterate_blocks visited {} blocks, {} are held", ri, seen.len(), held.len());
                if round.flush {
                    // flush_all (never concurrent with pushers); optionally concurrent with poppers
                    let extra: Vec<Vec<usize>> = std::thread::scope(|s| {
                        let qh: Vec<_> = (0..if round.flush_with_poppers { poppers } else { 0 })
                            .map(|_| {
                                s.spawn(move || {
                                    let mut got = vec![];
                                    for _ in 0..20 {
                                        if let Some(b) = pool_ref.pop() {
                                            got.push(b.start().as_usize());
                                        }
                                    }
                                    got
                                })
                            })
                            .collect();
                        pool_ref.flush_all();
                        qh.into_iter().map(|h| h.join().unwrap()).collect()
                    });
                    for got in &extra {
                        for a in got {
                            vensure!(held.remove(a), "round {}: popped block {:#x} that is not held during flush", ri, a);
                        }
                    }
                    for c in per_worker_count.iter_mut() {
                        *c = 0;
                    }
                    // after flush_all every held block is poppable
                    let expect = pool.len();
                    vensure!(expect == held.len(), "round {}: after flush len() = {} but {} blocks are held", ri, expect, held.len());
                    let mut drained = 0;
                    while let Some(b) = pool.pop() {
                        vensure!(held.remove(&b.start().as_usize()), "round {}: drain popped {:#x} which is not held", ri, b.start().as_usize());
                        drained += 1;
                        if drained > expect + 5 {
                            break;
                        }
                    }
                    vensure!(drained == expect && held.is_empty(), "round {}: after flush_all a drain popped {} blocks, len() was {}, {} still held", ri, drained, expect, held.len());
                }
            }
            Outcome::pass_l(overflow && multi, if overflow { vec!["overflow"] } else { vec![] })
        },
    );
}
