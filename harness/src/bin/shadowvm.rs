//! E1 worker: runs ONE whole-system case (MMTk allows one instance per process).
//! usage: shadowvm <case.json | ->     prints `VERDICT <json>` on stdout.

use std::io::Read;
use vh::shadow::case::{Case, Verdict, Violation};
use vh::shadow::exec::Exec;

fn run<const V: usize>(case: Case) -> Verdict {
    let mut e = Exec::<V>::new(case);
    e.run();
    e.verdict.clone()
}

fn main() {
    let arg = std::env::args().nth(1).unwrap_or_else(|| "-".to_string());
    let mut txt = String::new();
    if arg == "-" {
        std::io::stdin().read_to_string(&mut txt).unwrap();
    } else {
        txt = std::fs::read_to_string(&arg).expect("case file");
    }
    let v: serde_json::Value = serde_json::from_str(&txt).expect("case json");
    // accept either a bare case or a replay file {case: ...}
    let case: Case = if v.get("ops").is_some() { serde_json::from_value(v).unwrap() } else { serde_json::from_value(v["case"].clone()).unwrap() };
    // a panic anywhere (mmtk debug assertion, harness bug) becomes a crash verdict
    std::panic::set_hook(Box::new(|info| {
        let msg = format!("{}", info);
        if std::env::var("VH_BACKTRACE").is_ok() {
            eprintln!("{}", std::backtrace::Backtrace::force_capture());
        }
        let mut v = Verdict::default();
        v.ok = false;
        let thread = std::thread::current().name().unwrap_or("?").to_string();
        v.violations.push(Violation { property: "CRASH".into(), step: 0, detail: format!("panic in thread {}: {}", thread, msg), signature: "panic".into() });
        println!("VERDICT {}", serde_json::to_string(&v).unwrap());
        std::process::exit(3);
    }));
    // C10 watchdog: an alloc_with_options call during which no VM callback (stop/resume/block/oom)
    // happens for 30 s is stuck (retrying a hopeless request); heaps are tiny, a whole GC takes milliseconds.
    std::thread::spawn(|| {
        use std::sync::atomic::Ordering;
        let gl = vh::shadow::vm::g();
        let snap = || (gl.in_alloc_call.load(Ordering::SeqCst), gl.stop_calls.load(Ordering::SeqCst), gl.resume_calls.load(Ordering::SeqCst), gl.block_calls.load(Ordering::SeqCst), gl.oom_calls.load(Ordering::SeqCst));
        let mut last = snap();
        let mut since = std::time::Instant::now();
        loop {
            std::thread::sleep(std::time::Duration::from_millis(500));
            let now = snap();
            // C14: all workers parked while a goal is current or requested, or while an open enabled bucket
            // holds packets, and no scheduler event for 8 s: nobody is left to wake them up
            {
                let total = gl.sch_total.load(Ordering::SeqCst);
                let parked = gl.sch_parked.load(Ordering::SeqCst);
                let requests = gl.sch_requests.load(Ordering::SeqCst);
                let current = gl.sch_current.load(Ordering::SeqCst);
                let idle_ms = (vh::shadow::vm::process_start().elapsed().as_millis() as u64).saturating_sub(gl.sch_last_event_ms.load(Ordering::SeqCst));
                if total > 0 && parked == total && (requests != 0 || current != 0) && idle_ms > 8000 {
                    let mut v = Verdict::default();
                    v.ok = false;
                    v.violations.push(Violation { property: "C14".into(), step: 0, detail: format!("all {} GC workers have been parked for {} ms with no scheduler event while work is pending (requested goals bitmask {:#b} [bit0 Gc, bit1 Shutdown, bit2 StopForFork], current goal {})", total, idle_ms, requests, if current == 0 { "none".to_string() } else { format!("#{}", current - 1) }), signature: "all-workers-parked-with-pending-goal".into() });
                    println!("VERDICT {}", serde_json::to_string(&v).unwrap());
                    std::process::exit(1);
                }
            }
            if now != last || now.0 == 0 {
                last = now;
                since = std::time::Instant::now();
                continue;
            }
            if since.elapsed().as_secs() >= 30 {
                let mut v = Verdict::default();
                v.ok = false;
                let d = gl.alloc_call_desc.lock().map(|s| s.clone()).unwrap_or_default();
                v.violations.push(Violation { property: "C10".into(), step: 0, detail: format!("{} has not returned after 30 s without any collection, block_for_gc or out_of_memory activity", d), signature: "alloc-does-not-return".into() });
                println!("VERDICT {}", serde_json::to_string(&v).unwrap());
                std::process::exit(1);
            }
        }
    });
    let verdict = match case.variant {
        0 => run::<0>(case),
        1 => run::<1>(case),
        2 => run::<2>(case),
        3 => run::<3>(case),
        _ => panic!("bad variant"),
    };
    println!("VERDICT {}", serde_json::to_string(&verdict).unwrap());
    // do not run destructors of a live MMTk instance with running workers
    std::process::exit(if verdict.ok { 0 } else { 1 });
}
