//! Shared property runner: proptest `TestRunner` driven from a binary, with
//! evidence accounting, known-findings handling, shrinking and replay files.
//!
//! Every random choice is made by proptest strategies seeded from `VERIF_SEED`,
//! so a run is a pure function of the code under test and the seed.

use proptest::strategy::{Strategy, ValueTree};
use proptest::test_runner::{Config, RngAlgorithm, RngSeed, TestCaseError, TestError, TestRunner};
use serde::de::DeserializeOwned;
use serde::Serialize;
use serde_json::{json, Value};
use std::collections::hash_map::DefaultHasher;
use std::collections::{BTreeMap, HashSet};
use std::hash::{Hash, Hasher};
use std::sync::atomic::{AtomicBool, AtomicU64, Ordering};
use std::sync::Mutex;
use std::time::Instant;

pub const VERIF_DIR: &str = "/verif";

/// Root of the verification tree this binary belongs to: `<root>/harness/target-*/release/<exe>`
/// (falls back to /verif), so that a snapshot copy of /verif is self-contained.
pub fn verif_dir() -> String {
    if let Ok(exe) = std::env::current_exe() {
        if let Some(root) = exe.ancestors().nth(4) {
            if root.join("known_findings.json").exists() {
                return root.to_string_lossy().to_string();
            }
        }
    }
    VERIF_DIR.to_string()
}

#[derive(Clone, Copy, PartialEq, Eq, Debug)]
pub enum Tier {
    Quick,
    Thorough,
}

impl Tier {
    pub fn name(self) -> &'static str {
        match self {
            Tier::Quick => "quick",
            Tier::Thorough => "thorough",
        }
    }
    pub fn pick<T>(self, q: T, t: T) -> T {
        match self {
            Tier::Quick => q,
            Tier::Thorough => t,
        }
    }
}

/// Result of evaluating one generated case.
pub enum Outcome {
    /// The property held.  `nontrivial` by the property's stated rule;
    /// `labels` classify the case for the distribution histogram.
    Pass { nontrivial: bool, labels: Vec<&'static str> },
    /// The case (or part of it) falls on a recorded known finding.
    Known { signature: String, nontrivial: bool, labels: Vec<&'static str> },
    /// The property was violated.
    Fail { msg: String },
    /// The harness could not decide (watchdog, subprocess OOM ...): exit 2.
    Inconclusive { msg: String },
}

impl Outcome {
    pub fn pass(nontrivial: bool) -> Outcome {
        Outcome::Pass { nontrivial, labels: vec![] }
    }
    pub fn pass_l(nontrivial: bool, labels: Vec<&'static str>) -> Outcome {
        Outcome::Pass { nontrivial, labels }
    }
    pub fn fail(msg: impl Into<String>) -> Outcome {
        Outcome::Fail { msg: msg.into() }
    }
}

#[macro_export]
macro_rules! vfail {
    ($($arg:tt)*) => { return $crate::runner::Outcome::Fail { msg: format!($($arg)*) } };
}

#[macro_export]
macro_rules! vensure {
    ($cond:expr, $($arg:tt)*) => { if !($cond) { return $crate::runner::Outcome::Fail { msg: format!($($arg)*) }; } };
}

pub struct Env {
    /// index of the evaluation thread (0..threads), for partitioning fixed
    /// address windows and similar process-global resources.
    pub thread: usize,
}

#[derive(Clone, Debug, serde::Deserialize)]
pub struct KnownFinding {
    pub property: String,
    pub status: String,
    pub signature: String,
    pub description: String,
    #[serde(default)]
    pub commit: Option<String>,
    /// saved input reproducing the finding (path relative to /verif)
    #[serde(default)]
    pub replay: Option<String>,
    /// how many times the (schedule dependent) replay is attempted
    #[serde(default)]
    pub replay_attempts: Option<u32>,
    /// whole-system findings: the finding is specific to this plan (part of the signature)
    #[serde(default)]
    pub plan: Option<String>,
    /// other properties whose whole-system checks can run into this finding (crash-class findings
    /// end the case whatever property the case was generated for)
    #[serde(default)]
    pub also: Vec<String>,
}

impl KnownFinding {
    /// Does this listed (unfixed) finding cover a violation with signature `sig` of property `viol_prop`
    /// seen by the check of `check_prop` in a case running `plan`?
    pub fn covers(&self, check_prop: &str, viol_prop: &str, sig: &str, plan: &str) -> bool {
        self.status == "known"
            && self.signature == sig
            && self.plan.as_deref().map(|p| p == plan).unwrap_or(true)
            && (self.property == check_prop || self.property == viol_prop || self.also.iter().any(|a| a == check_prop))
    }
}

pub fn load_known_findings() -> Vec<KnownFinding> {
    let p = format!("{}/known_findings.json", verif_dir());
    match std::fs::read_to_string(&p) {
        Ok(s) => serde_json::from_str(&s).expect("known_findings.json must parse"),
        Err(_) => vec![],
    }
}

struct SectionStats {
    name: String,
    evaluations: u64,
    nontrivial_hashes: HashSet<u64>,
    labels: BTreeMap<String, u64>,
    samples: Vec<Value>,
    known_hits: BTreeMap<String, u64>,
}

pub struct Check {
    pub id: String,
    pub tier: Tier,
    pub seed: u64,
    pub level: &'static str,
    pub threads: usize,
    rule: String,
    assumptions: Vec<String>,
    start: Instant,
    sections: Vec<SectionStats>,
    violations: Vec<(String, String)>, // (section, replay path)
    inconclusive: Vec<String>,
    known: Vec<KnownFinding>,
    known_printed: HashSet<String>,
    extra: BTreeMap<String, Value>,
    pub replay: Option<String>,
    /// shrink budget per failing section (evaluations)
    pub shrink_iters: u32,
    /// child mode: run only this section, as shard `i` of `n` (single thread, thread index = i)
    pub shard: Option<(String, usize, usize)>,
    shard_out: Option<Value>,
    /// properties whose violations this check also reports (whole-system checks sharing an oracle)
    pub also_properties: Vec<String>,
}

fn hash_value<T: Serialize>(v: &T) -> u64 {
    let s = serde_json::to_string(v).unwrap();
    let mut h = DefaultHasher::new();
    s.hash(&mut h);
    h.finish()
}

fn truncate_json(v: Value, max: usize) -> Value {
    let s = v.to_string();
    if s.len() <= max {
        v
    } else {
        json!({ "truncated": format!("{}...", &s[..max]), "full_len": s.len() })
    }
}

impl Check {
    pub fn new(id: &str, tier: Tier, rule: &str) -> Check {
        let seed: u64 = std::env::var("VERIF_SEED")
            .ok()
            .and_then(|s| s.trim().parse::<i64>().ok())
            .map(|v| v as u64)
            .unwrap_or(0);
        let threads = std::env::var("VERIF_THREADS")
            .ok()
            .and_then(|s| s.parse().ok())
            .unwrap_or(12usize);
        Check {
            id: id.to_string(),
            tier,
            seed,
            level: "exploration",
            threads,
            rule: rule.to_string(),
            assumptions: vec![],
            start: Instant::now(),
            sections: vec![],
            violations: vec![],
            inconclusive: vec![],
            known: load_known_findings(),
            known_printed: HashSet::new(),
            extra: BTreeMap::new(),
            replay: None,
            shrink_iters: 2000,
            shard: None,
            shard_out: None,
            also_properties: vec![],
        }
    }

    pub fn assume(&mut self, s: &str) {
        self.assumptions.push(s.to_string());
    }

    pub fn extra(&mut self, k: &str, v: Value) {
        self.extra.insert(k.to_string(), v);
    }

    /// Known (unfixed) findings listed for this property.
    pub fn known_entries(&self) -> Vec<KnownFinding> {
        self.known.iter().filter(|k| k.property == self.id && k.status == "known").cloned().collect()
    }

    /// Findings recorded as fixed for this property (their replays are regression inputs).
    pub fn fixed_entries(&self) -> Vec<KnownFinding> {
        self.known.iter().filter(|k| k.property == self.id && k.status == "fixed").cloned().collect()
    }

    /// Record the result of replaying saved inputs (outside the generated sections).
    pub fn record_replay(&mut self, name: &str, outcome: Outcome, path: &str) {
        let st = self.sections.iter_mut().find(|s| s.name == "saved-inputs");
        let st = match st {
            Some(s) => s,
            None => {
                self.sections.push(SectionStats { name: "saved-inputs".into(), evaluations: 0, nontrivial_hashes: HashSet::new(), labels: BTreeMap::new(), samples: vec![], known_hits: BTreeMap::new() });
                self.sections.last_mut().unwrap()
            }
        };
        st.evaluations += 1;
        match outcome {
            Outcome::Pass { .. } => {
                *st.labels.entry(format!("pass:{}", name)).or_default() += 1;
            }
            Outcome::Known { signature, .. } => {
                *st.known_hits.entry(signature).or_default() += 1;
            }
            Outcome::Fail { msg } => {
                println!("saved input {} fails: {}", path, msg);
                self.violations.push(("saved-inputs".into(), path.to_string()));
            }
            Outcome::Inconclusive { msg } => self.inconclusive.push(msg),
        }
    }

    pub fn is_known(&self, signature: &str) -> bool {
        self.known
            .iter()
            .any(|k| k.property == self.id && k.status == "known" && k.signature == signature)
    }

    fn effective_seed(&self, section: &str, thread: usize) -> u64 {
        let mut h = DefaultHasher::new();
        self.seed.hash(&mut h);
        section.hash(&mut h);
        thread.hash(&mut h);
        // never 0 for the fixed seed (purely cosmetic)
        h.finish() | 1
    }

    /// Run one section: `cases` generated values of `strategy`, spread over the
    /// evaluation threads, each evaluated by `f`.
    pub fn section<S, M, F>(&mut self, name: &str, cases: u64, mk: M, f: F)
    where
        S: Strategy,
        M: Fn() -> S + Sync,
        S::Value: Serialize + DeserializeOwned + Clone + std::fmt::Debug + Send,
        F: Fn(&S::Value, &Env) -> Outcome + Sync,
    {
        self.section_threads(name, cases, self.threads, mk, f)
    }

    /// `mk` builds the strategy (once per evaluation thread: boxed strategies are not `Sync`).
    pub fn section_threads<S, M, F>(&mut self, name: &str, cases: u64, threads: usize, mk: M, f: F)
    where
        S: Strategy,
        M: Fn() -> S + Sync,
        S::Value: Serialize + DeserializeOwned + Clone + std::fmt::Debug + Send,
        F: Fn(&S::Value, &Env) -> Outcome + Sync,
    {
        // replay mode: evaluate exactly the saved case of this section
        if let Some(path) = self.replay.clone() {
            let txt = std::fs::read_to_string(&path).expect("replay file");
            let v: Value = serde_json::from_str(&txt).expect("replay json");
            if v["section"].as_str() != Some(name) {
                return;
            }
            let case: S::Value = serde_json::from_value(v["case"].clone()).expect("replay case");
            let mut st = SectionStats {
                name: name.to_string(),
                evaluations: 1,
                nontrivial_hashes: HashSet::new(),
                labels: BTreeMap::new(),
                samples: vec![serde_json::to_value(&case).unwrap()],
                known_hits: BTreeMap::new(),
            };
            let reps: usize = std::env::var("VERIF_REPLAY_REPS").ok().and_then(|s| s.parse().ok()).unwrap_or(1);
            for _ in 0..reps {
                match f(&case, &Env { thread: 0 }) {
                    Outcome::Fail { msg } => {
                        println!("replay: section={} FAIL: {}", name, msg);
                        self.violations.push((name.to_string(), path.clone()));
                        break;
                    }
                    Outcome::Known { signature, .. } => {
                        *st.known_hits.entry(signature).or_default() += 1;
                    }
                    Outcome::Inconclusive { msg } => self.inconclusive.push(msg),
                    Outcome::Pass { .. } => println!("replay: section={} pass", name),
                }
            }
            self.sections.push(st);
            return;
        }

        let mut threads = threads.max(1).min(cases.max(1) as usize);
        let mut thread_base = 0usize;
        let mut cases = cases;
        if let Some((sec, i, n)) = self.shard.clone() {
            if sec != name {
                return;
            }
            threads = 1;
            thread_base = i;
            cases = (cases + n as u64 - 1) / n as u64;
        }
        let stop = AtomicBool::new(false);
        let evals = AtomicU64::new(0);
        struct Shared {
            nontrivial: HashSet<u64>,
            labels: BTreeMap<String, u64>,
            samples: Vec<Value>,
            nt_samples: Vec<Value>,
            known_hits: BTreeMap<String, u64>,
            failure: Option<(Value, String)>,
            inconclusive: Vec<String>,
        }
        let shared = Mutex::new(Shared {
            nontrivial: HashSet::new(),
            labels: BTreeMap::new(),
            samples: vec![],
            nt_samples: vec![],
            known_hits: BTreeMap::new(),
            failure: None,
            inconclusive: vec![],
        });
        let per_thread = (cases + threads as u64 - 1) / threads as u64;
        let shrink_iters = self.shrink_iters;
        std::thread::scope(|scope| {
            for t in 0..threads {
                let mk = &mk;
                let f = &f;
                let stop = &stop;
                let evals = &evals;
                let shared = &shared;
                let seed = self.effective_seed(name, t + thread_base);
                scope.spawn(move || {
                    let mut seed_bytes = [0u8; 32];
                    for (i, b) in seed_bytes.iter_mut().enumerate() {
                        *b = (seed.rotate_left((i as u32 * 7) % 64) >> ((i % 8) * 8)) as u8 ^ (i as u8).wrapping_mul(31);
                    }
                    let _ = seed_bytes;
                    let config = Config {
                        cases: per_thread as u32,
                        failure_persistence: None,
                        rng_algorithm: RngAlgorithm::ChaCha,
                        rng_seed: RngSeed::Fixed(seed),
                        max_shrink_iters: shrink_iters,
                        max_global_rejects: 1 << 20,
                        verbose: 0,
                        ..Config::default()
                    };
                    let mut runner = TestRunner::new(config);
                    let env = Env { thread: t + thread_base };
                    let failed = std::cell::Cell::new(false);
                    let strategy = mk();
                    let res = runner.run(&strategy, |v| {
                        if stop.load(Ordering::Relaxed) && !failed.get() {
                            // another thread found a failure: stop generating
                            return Ok(());
                        }
                        if !failed.get() {
                            evals.fetch_add(1, Ordering::Relaxed);
                        }
                        let out = f(&v, &env);
                        match out {
                            Outcome::Pass { nontrivial, labels } => {
                                if !failed.get() {
                                    let mut sh = shared.lock().unwrap();
                                    for l in labels {
                                        *sh.labels.entry(l.to_string()).or_default() += 1;
                                    }
                                    if nontrivial {
                                        let h = hash_value(&v);
                                        if sh.nontrivial.insert(h) && sh.nt_samples.len() < 3 {
                                            sh.nt_samples.push(serde_json::to_value(&v).unwrap());
                                        }
                                    } else if sh.samples.len() < 1 {
                                        sh.samples.push(serde_json::to_value(&v).unwrap());
                                    }
                                }
                                Ok(())
                            }
                            Outcome::Known { signature, nontrivial, labels } => {
                                if !failed.get() {
                                    let mut sh = shared.lock().unwrap();
                                    *sh.known_hits.entry(signature).or_default() += 1;
                                    for l in labels {
                                        *sh.labels.entry(l.to_string()).or_default() += 1;
                                    }
                                    if nontrivial {
                                        let h = hash_value(&v);
                                        sh.nontrivial.insert(h);
                                    }
                                }
                                Ok(())
                            }
                            Outcome::Inconclusive { msg } => {
                                let mut sh = shared.lock().unwrap();
                                if sh.inconclusive.len() < 5 {
                                    sh.inconclusive.push(msg);
                                }
                                Ok(())
                            }
                            Outcome::Fail { msg } => {
                                if !failed.get() && stop.swap(true, Ordering::SeqCst) {
                                    // another thread already owns the failure (and is shrinking it)
                                    return Ok(());
                                }
                                failed.set(true);
                                Err(TestCaseError::fail(msg))
                            }
                        }
                    });
                    if let Err(TestError::Fail(reason, value)) = res {
                        let mut sh = shared.lock().unwrap();
                        if sh.failure.is_none() {
                            sh.failure = Some((serde_json::to_value(&value).unwrap(), reason.to_string()));
                        }
                    } else if let Err(TestError::Abort(reason)) = res {
                        let mut sh = shared.lock().unwrap();
                        sh.inconclusive.push(format!("proptest abort: {}", reason));
                    }
                });
            }
        });
        let sh = shared.into_inner().unwrap();
        let mut samples = sh.nt_samples;
        samples.extend(sh.samples);
        let st = SectionStats {
            name: name.to_string(),
            evaluations: evals.load(Ordering::Relaxed),
            nontrivial_hashes: sh.nontrivial,
            labels: sh.labels,
            samples: samples.into_iter().map(|v| truncate_json(v, 3000)).collect(),
            known_hits: sh.known_hits,
        };
        if self.shard.is_some() {
            self.shard_out = Some(json!({
                "evaluations": st.evaluations,
                "nontrivial": st.nontrivial_hashes.iter().collect::<Vec<_>>(),
                "labels": st.labels,
                "samples": st.samples,
                "known_hits": st.known_hits,
                "failure": sh.failure.as_ref().map(|(c, r)| json!({"case": c, "reason": r})),
                "inconclusive": sh.inconclusive,
            }));
            return;
        }
        self.sections.push(st);
        self.inconclusive.extend(sh.inconclusive);
        if let Some((case, reason)) = sh.failure {
            let dir = std::env::var("VERIF_REPLAY_DIR").unwrap_or(format!("{}/evidence/replays", verif_dir()));
            let _ = std::fs::create_dir_all(&dir);
            let body = json!({ "property": self.id, "section": name, "reason": reason, "case": case });
            let h = hash_value(&body);
            let path = format!("{}/{}-{:016x}.json", dir, self.id, h);
            std::fs::write(&path, serde_json::to_string_pretty(&body).unwrap()).unwrap();
            println!("failure in section {}: {}", name, reason);
            self.violations.push((name.to_string(), path));
        }
    }

    /// Like `section`, but the cases are spread over `procs` child processes of this binary
    /// (for components with process-global state: one evaluation thread per process).
    pub fn section_procs<S, M, F>(&mut self, name: &str, cases: u64, procs: usize, mk: M, f: F)
    where
        S: Strategy,
        M: Fn() -> S + Sync,
        S::Value: Serialize + DeserializeOwned + Clone + std::fmt::Debug + Send,
        F: Fn(&S::Value, &Env) -> Outcome + Sync,
    {
        if self.replay.is_some() || self.shard.is_some() {
            return self.section_threads(name, cases, 1, mk, f);
        }
        let procs = procs.max(1).min(cases.max(1) as usize);
        let exe = std::env::current_exe().unwrap();
        let mut children = vec![];
        for i in 0..procs {
            let child = std::process::Command::new(&exe)
                .arg(&self.id)
                .arg("--tier")
                .arg(self.tier.name())
                .arg("--shard")
                .arg(name)
                .arg(i.to_string())
                .arg(procs.to_string())
                .env("VERIF_SEED", (self.seed as i64).to_string())
                .stdout(std::process::Stdio::piped())
                .stderr(std::process::Stdio::piped())
                .spawn();
            match child {
                Ok(c) => children.push(c),
                Err(e) => self.inconclusive.push(format!("spawn shard: {}", e)),
            }
        }
        let mut st = SectionStats { name: name.to_string(), evaluations: 0, nontrivial_hashes: HashSet::new(), labels: BTreeMap::new(), samples: vec![], known_hits: BTreeMap::new() };
        let mut failure: Option<(Value, String)> = None;
        // shard watchdog: a shard that does not finish in time is killed and the run is inconclusive
        let budget_s: u64 = std::env::var("VERIF_SHARD_TIMEOUT_S").ok().and_then(|s| s.parse().ok()).unwrap_or(match self.tier {
            Tier::Quick => 900,
            Tier::Thorough => 6 * 3600,
        });
        let deadline = Instant::now() + std::time::Duration::from_secs(budget_s);
        let pids: Vec<u32> = children.iter().map(|c| c.id()).collect();
        let (tx, rx) = std::sync::mpsc::channel();
        for (i, c) in children.into_iter().enumerate() {
            let tx = tx.clone();
            std::thread::spawn(move || {
                let _ = tx.send((i, c.wait_with_output()));
            });
        }
        drop(tx);
        let mut outputs = vec![];
        let mut done = vec![false; pids.len()];
        while outputs.len() < pids.len() {
            let left = deadline.saturating_duration_since(Instant::now());
            match rx.recv_timeout(left) {
                Ok((i, o)) => {
                    done[i] = true;
                    outputs.push(o);
                }
                Err(_) => {
                    for (i, pid) in pids.iter().enumerate() {
                        if !done[i] {
                            unsafe { libc::kill(*pid as i32, libc::SIGKILL) };
                        }
                    }
                    self.inconclusive.push(format!("section {}: {} shard process(es) did not finish within {} s and were killed", name, done.iter().filter(|d| !**d).count(), budget_s));
                    break;
                }
            }
        }
        for out in outputs {
            let out = match out {
                Ok(o) => o,
                Err(e) => {
                    self.inconclusive.push(format!("shard wait: {}", e));
                    continue;
                }
            };
            let txt = String::from_utf8_lossy(&out.stdout);
            let Some(line) = txt.lines().rev().find(|l| l.starts_with("SHARD ")) else {
                let err = String::from_utf8_lossy(&out.stderr);
                let tail: Vec<&str> = err.lines().rev().take(8).collect();
                // a crashed shard is a failure of the code under test (or of the harness): report as violation-class crash
                use std::os::unix::process::ExitStatusExt;
                if let Some(sig) = out.status.signal() {
                    if failure.is_none() {
                        failure = Some((Value::Null, format!("shard process of section {} died with signal {}: {}", name, sig, tail.join(" | "))));
                    }
                } else {
                    self.inconclusive.push(format!("shard of {} produced no result (status {:?}): {}", name, out.status.code(), tail.join(" | ")));
                }
                continue;
            };
            let v: Value = match serde_json::from_str(&line[6..]) {
                Ok(v) => v,
                Err(e) => {
                    self.inconclusive.push(format!("shard output: {}", e));
                    continue;
                }
            };
            st.evaluations += v["evaluations"].as_u64().unwrap_or(0);
            for h in v["nontrivial"].as_array().cloned().unwrap_or_default() {
                if let Some(h) = h.as_u64() {
                    st.nontrivial_hashes.insert(h);
                }
            }
            if let Some(m) = v["labels"].as_object() {
                for (k, n) in m {
                    *st.labels.entry(k.clone()).or_default() += n.as_u64().unwrap_or(0);
                }
            }
            if let Some(m) = v["known_hits"].as_object() {
                for (k, n) in m {
                    *st.known_hits.entry(k.clone()).or_default() += n.as_u64().unwrap_or(0);
                }
            }
            if st.samples.len() < 4 {
                for smp in v["samples"].as_array().cloned().unwrap_or_default().into_iter().take(2) {
                    st.samples.push(smp);
                }
            }
            for m in v["inconclusive"].as_array().cloned().unwrap_or_default() {
                if let Some(m) = m.as_str() {
                    self.inconclusive.push(m.to_string());
                }
            }
            if failure.is_none() && !v["failure"].is_null() {
                failure = Some((v["failure"]["case"].clone(), v["failure"]["reason"].as_str().unwrap_or("").to_string()));
            }
        }
        self.sections.push(st);
        if let Some((case, reason)) = failure {
            let dir = std::env::var("VERIF_REPLAY_DIR").unwrap_or(format!("{}/evidence/replays", verif_dir()));
            let _ = std::fs::create_dir_all(&dir);
            let body = json!({ "property": self.id, "section": name, "reason": reason, "case": case });
            let h = hash_value(&body);
            let path = format!("{}/{}-{:016x}.json", dir, self.id, h);
            std::fs::write(&path, serde_json::to_string_pretty(&body).unwrap()).unwrap();
            println!("failure in section {}: {}", name, reason);
            self.violations.push((name.to_string(), path));
        }
    }

    /// Enumerate a finite list of cases exhaustively (no generator).
    pub fn enumerate<T, I, F>(&mut self, name: &str, items: I, f: F)
    where
        T: Serialize + Clone + std::fmt::Debug,
        I: IntoIterator<Item = T>,
        F: Fn(&T) -> Outcome,
    {
        let mut st = SectionStats {
            name: name.to_string(),
            evaluations: 0,
            nontrivial_hashes: HashSet::new(),
            labels: BTreeMap::new(),
            samples: vec![],
            known_hits: BTreeMap::new(),
        };
        let replay_case: Option<Value> = self.replay.as_ref().and_then(|p| {
            let v: Value = serde_json::from_str(&std::fs::read_to_string(p).ok()?).ok()?;
            if v["section"].as_str() == Some(name) {
                Some(v["case"].clone())
            } else {
                Some(Value::Null)
            }
        });
        let mut first_failure: Option<(Value, String)> = None;
        for item in items {
            if let Some(rc) = &replay_case {
                if serde_json::to_value(&item).unwrap() != *rc {
                    continue;
                }
            }
            st.evaluations += 1;
            match f(&item) {
                Outcome::Pass { nontrivial, labels } => {
                    for l in labels {
                        *st.labels.entry(l.to_string()).or_default() += 1;
                    }
                    if nontrivial {
                        if st.nontrivial_hashes.insert(hash_value(&item)) && st.samples.len() < 3 {
                            st.samples.push(serde_json::to_value(&item).unwrap());
                        }
                    }
                }
                Outcome::Known { signature, nontrivial, .. } => {
                    *st.known_hits.entry(signature).or_default() += 1;
                    if nontrivial {
                        st.nontrivial_hashes.insert(hash_value(&item));
                    }
                }
                Outcome::Inconclusive { msg } => self.inconclusive.push(msg),
                Outcome::Fail { msg } => {
                    if first_failure.is_none() {
                        first_failure = Some((serde_json::to_value(&item).unwrap(), msg));
                    }
                    break;
                }
            }
        }
        self.sections.push(st);
        if let Some((case, reason)) = first_failure {
            let dir = std::env::var("VERIF_REPLAY_DIR").unwrap_or(format!("{}/evidence/replays", verif_dir()));
            let _ = std::fs::create_dir_all(&dir);
            let body = json!({ "property": self.id, "section": name, "reason": reason, "case": case });
            let h = hash_value(&body);
            let path = format!("{}/{}-{:016x}.json", dir, self.id, h);
            std::fs::write(&path, serde_json::to_string_pretty(&body).unwrap()).unwrap();
            println!("failure in section {}: {}", name, reason);
            self.violations.push((name.to_string(), path));
        }
    }

    /// Write the evidence file, print verdict lines, return the exit code.
    pub fn finish(mut self) -> i32 {
        if self.shard.is_some() {
            let out = self.shard_out.take().unwrap_or(json!({"evaluations": 0, "nontrivial": [], "labels": {}, "samples": [], "known_hits": {}, "failure": null, "inconclusive": []}));
            println!("SHARD {}", out);
            return 0;
        }
        let wall = self.start.elapsed().as_secs_f64();
        let evaluations: u64 = self.sections.iter().map(|s| s.evaluations).sum();
        let distinct_nontrivial: usize = self.sections.iter().map(|s| s.nontrivial_hashes.len()).sum();
        let mut samples = vec![];
        let mut per_section = vec![];
        let mut known_total: BTreeMap<String, u64> = BTreeMap::new();
        for s in &self.sections {
            for smp in s.samples.iter().take(2) {
                samples.push(json!({ "section": s.name, "case": smp }));
            }
            for (k, v) in &s.known_hits {
                *known_total.entry(k.clone()).or_default() += v;
            }
            per_section.push(json!({
                "section": s.name,
                "evaluations": s.evaluations,
                "distinct_nontrivial": s.nontrivial_hashes.len(),
                "labels": s.labels,
                "known_finding_hits": s.known_hits,
            }));
        }
        if samples.len() > 12 {
            samples.truncate(12);
        }
        // Known findings: print one line per listed finding that was hit.
        let mut unknown_known = vec![];
        for (sig, n) in &known_total {
            let listed = self
                .known
                .iter()
                .find(|k| k.property == self.id && k.signature == *sig && k.status == "known")
                .or_else(|| self.known.iter().find(|k| k.signature == *sig && k.status == "known" && k.also.iter().any(|a| *a == self.id)))
                .or_else(|| self.known.iter().find(|k| k.signature == *sig && k.status == "known" && self.also_properties.iter().any(|a| *a == k.property)));
            if let Some(k) = listed {
                if self.known_printed.insert(sig.clone()) {
                    println!("KNOWN-FINDING: property={} {} [{}; {} generated cases hit it]", self.id, k.description, sig, n);
                }
            } else {
                unknown_known.push(sig.clone());
            }
        }
        let replaying = self.replay.is_some();
        let mut coverage = json!({
            "evaluations": evaluations,
            "distinct_nontrivial": distinct_nontrivial,
            "rule": self.rule,
            "samples": samples,
            "sections": per_section,
            "known_finding_hits": known_total,
            "threads": self.threads,
        });
        for (k, v) in &self.extra {
            coverage[k] = v.clone();
        }
        let ev = json!({
            "property_id": self.id,
            "tier": self.tier.name(),
            "seed": self.seed as i64,
            "level": self.level,
            "coverage": coverage,
            "assumptions": self.assumptions,
            "wall_s": wall,
            "violations": self.violations.len() + unknown_known.len(),
        });
        // VERIF_NO_EVIDENCE: runs against deliberately broken trees (seeded changes) must not overwrite evidence
        if !replaying && std::env::var("VERIF_NO_EVIDENCE").is_err() {
            let dir = format!("{}/evidence", verif_dir());
            let _ = std::fs::create_dir_all(&dir);
            let path = format!("{}/{}.json", dir, self.id);
            std::fs::write(&path, serde_json::to_string_pretty(&ev).unwrap()).unwrap();
        }
        println!(
            "check {} tier={} seed={} evaluations={} distinct_nontrivial={} wall={:.1}s",
            self.id,
            self.tier.name(),
            self.seed,
            evaluations,
            distinct_nontrivial,
            wall
        );
        for s in &self.sections {
            println!("  section {:<28} evals={:<8} nontrivial={:<8} labels={:?}", s.name, s.evaluations, s.nontrivial_hashes.len(), s.labels);
        }
        let mut code = 0;
        for sig in unknown_known {
            // a check reported Known for a signature the file does not list: that is a violation
            println!("VIOLATION property={} replay=signature:{}", self.id, sig);
            code = 1;
        }
        for (_sec, path) in &self.violations {
            println!("VIOLATION property={} replay={}", self.id, path);
            code = 1;
        }
        if code == 0 && !self.inconclusive.is_empty() {
            for m in self.inconclusive.iter().take(5) {
                println!("INCONCLUSIVE: {}", m);
            }
            code = 2;
        }
        if code == 0 && !replaying && (evaluations == 0 || distinct_nontrivial < 2) {
            println!("INCONCLUSIVE: too few non-trivial cases ({})", distinct_nontrivial);
            code = 2;
        }
        code
    }
}

/// Helper: draw one value from a strategy with a fixed seed (used for sampling
/// configurations outside the runner).
pub fn sample_one<S: Strategy>(s: &S, seed: u64) -> S::Value {
    let mut runner = TestRunner::new(Config { rng_seed: RngSeed::Fixed(seed), failure_persistence: None, ..Config::default() });
    s.new_tree(&mut runner).unwrap().current()
}
