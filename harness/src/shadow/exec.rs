//! Executor: runs one `Case` against a real `MMTK<ShadowVM<V>>` and checks the
//! oracles against the out-of-heap shadow heap.

use super::case::*;
use super::vm::*;
use mmtk::plan::{AllocationSemantics, BarrierSelector};
use mmtk::util::alloc::AllocationOptions;
use mmtk::util::{Address, ObjectReference};
use mmtk::vm::slot::SimpleSlot;
use mmtk::{memory_manager as mm, MMTKBuilder, Mutator, MMTK};
use std::collections::{BTreeMap, HashMap, HashSet};
use std::sync::atomic::Ordering;

#[derive(Clone, Debug, PartialEq, Eq)]
pub enum State {
    Live,
    /// not reachable from roots, but possibly retained by MMTk's finalizer tables
    Limbo,
}

#[derive(Clone, Debug)]
pub struct SObj {
    pub id: u64,
    pub size: usize,
    pub nrefs: usize,
    pub kind: u8,
    pub sem: u8,
    pub align: usize,
    pub offset: usize,
    pub fields: Vec<u64>,
    pub addr: usize,
    pub alloc_addr: usize,
    pub space: &'static str,
    pub pinned: bool,
    pub state: State,
    pub alloc_gc: u64,
    pub survived: u32,
}

pub struct Exec<const V: usize> {
    pub mmtk: &'static MMTK<ShadowVM<V>>,
    pub case: Case,
    pub ro: usize,
    pub objs: HashMap<u64, SObj>,
    pub addr2id: HashMap<usize, u64>,
    pub next_id: u64,
    pub roots: Vec<Vec<u64>>,
    pub root_kind: Vec<Vec<u8>>,
    pub groots: Vec<u64>,
    pub bound: Vec<bool>,
    pub last_resume: u64,
    pub step: usize,
    pub verdict: Verdict,
    pub max_non_los: usize,
    pub barrier: BarrierSelector,
    pub plan_moves: bool,
    pub is_nogc: bool,
    /// start -> (end, id): objects that must not be overlapped by new allocations
    pub intervals: BTreeMap<usize, (usize, u64)>,
    /// ids allocated into never-collected spaces
    pub immortal_ids: HashSet<u64>,
    pub fin_registered: Vec<u64>,
    pub fin_maybe_ready: Vec<u64>,
    pub fin_must_ready: Vec<u64>,
    /// registered reference objects: id -> kind
    pub ref_registered: HashMap<u64, u8>,
    /// reference ids seen enqueued (for at-most-once)
    pub ref_enqueued: HashSet<u64>,
    /// reference objects that were (possibly) dead when their table was scanned: dropped by MMTk
    pub ref_maybe_dropped: HashSet<u64>,
    pub high_water: usize,
    pub gcs_seen: u64,
    pub last_full_exhaustive: bool,
    pub pending_exhaustive: bool,
    pub moved_since_start: u64,
    pub used_after_gc: Vec<usize>,
    pub used_after_empty_gc: Vec<usize>,
    pub eph_model: Vec<(u64, u64)>,
    pub dead_addrs: Vec<(usize, u64, usize)>,
    pub in_marking_ops: u64,
    pub nogc_allocated: usize,
    pub alloc_call_seq: u64,
    /// an allocation with allow_overcommit succeeded: the heap may legitimately exceed its size
    pub overcommitted: bool,
    pub overcommitted_bytes: usize,
    pub sched: super::sched::SchedCheck,
}

macro_rules! cnt {
    ($self:expr, $k:expr) => {
        *$self.verdict.counters.entry($k.to_string()).or_insert(0) += 1
    };
    ($self:expr, $k:expr, $n:expr) => {
        *$self.verdict.counters.entry($k.to_string()).or_insert(0) += $n as u64
    };
}

pub fn sem_of(code: u8) -> AllocationSemantics {
    match code % 7 {
        0 => AllocationSemantics::Default,
        1 => AllocationSemantics::Immortal,
        2 => AllocationSemantics::Los,
        3 => AllocationSemantics::Code,
        4 => AllocationSemantics::ReadOnly,
        5 => AllocationSemantics::LargeCode,
        _ => AllocationSemantics::NonMoving,
    }
}

fn oref(a: usize) -> ObjectReference {
    ObjectReference::from_raw_address(unsafe { Address::from_usize(a) }).unwrap()
}

fn addr(a: usize) -> Address {
    unsafe { Address::from_usize(a) }
}

fn cv_counter(v: &Verdict, k: &str) -> u64 {
    v.counters.get(k).copied().unwrap_or(0)
}

fn g_clear(gi: usize) {
    g().global_roots[gi].store(0, Ordering::Relaxed);
}

pub fn build_mmtk<const V: usize>(case: &Case) -> &'static MMTK<ShadowVM<V>> {
    // scheduler event log (cfg(mmtk_verif) hooks): installed before the instance exists so that no
    // packet is added unobserved
    g().events_enabled.store(true, Ordering::SeqCst);
    mmtk::verif::events::set_sink(sched_sink);
    let mut builder = MMTKBuilder::new_no_env_vars();
    assert!(builder.set_option("plan", &case.plan), "bad plan {}", case.plan);
    assert!(builder.set_option("threads", &format!("{}", case.workers.max(1))));
    let trig = match case.dyn_heap {
        Some((min, max)) => format!("DynamicHeapSize:{}k,{}k", min, max),
        None => format!("FixedHeapSize:{}k", case.heap_kb),
    };
    assert!(builder.set_option("gc_trigger", &trig), "bad trigger {}", trig);
    for (k, v) in &case.opts {
        if k.starts_with("__") {
            continue;
        }
        assert!(builder.set_option(k, v), "bad option {}={}", k, v);
    }
    if std::env::var("VH_ASAN_LAYOUT").is_ok() {
        // keep the heap out of AddressSanitizer's shadow memory: spaces 9..15 of the 64-bit layout
        use mmtk::util::heap::vm_layout::VMLayout;
        builder.set_vm_layout(VMLayout {
            log_address_space: 47,
            heap_start: unsafe { Address::from_usize(9usize << 41) },
            heap_end: unsafe { Address::from_usize(16usize << 41) },
            log_space_extent: 41,
            force_use_contiguous_spaces: true,
        });
    }
    let mmtk: Box<MMTK<ShadowVM<V>>> = mm::mmtk_init::<ShadowVM<V>>(&builder);
    let mmtk: &'static MMTK<ShadowVM<V>> = Box::leak(mmtk);
    let gl = g();
    gl.mmtk.store(mmtk as *const _ as usize, Ordering::Release);
    gl.ref_offset.store(variant(V).ref_offset, Ordering::Relaxed);
    gl.copy_spin.store(case.copy_spin as usize, Ordering::Relaxed);
    if let Some((_, v)) = case.opts.iter().find(|(k, _)| k == "__scan_delay") {
        gl.scan_delay_us.store(v.parse().unwrap_or(0), Ordering::Relaxed);
    }
    if case.opts.iter().any(|(k, _)| k == "__vm_packets") && case.plan != "ConcurrentImmix" {
        gl.vm_packets.store(true, Ordering::Relaxed);
    }
    {
        let mut muts = gl.mutators.lock().unwrap();
        for _ in 0..MAX_MUTATORS {
            muts.push(new_mutator_rec());
        }
    }
    mmtk
}

impl<const V: usize> Exec<V> {
    pub fn new(case: Case) -> Self {
        let mmtk = build_mmtk::<V>(&case);
        let constraints = mmtk.get_plan().constraints();
        let mut e = Exec {
            mmtk,
            ro: variant(V).ref_offset,
            objs: HashMap::new(),
            addr2id: HashMap::new(),
            next_id: 1,
            roots: vec![vec![0; ROOTS_PER_MUTATOR]; MAX_MUTATORS],
            root_kind: vec![vec![0; ROOTS_PER_MUTATOR]; MAX_MUTATORS],
            groots: vec![0; GLOBAL_ROOTS],
            bound: vec![false; MAX_MUTATORS],
            last_resume: 0,
            step: 0,
            verdict: Verdict { ok: true, ..Default::default() },
            max_non_los: constraints.max_non_los_default_alloc_bytes,
            barrier: constraints.barrier,
            plan_moves: constraints.moves_objects,
            is_nogc: case.plan == "NoGC",
            intervals: BTreeMap::new(),
            immortal_ids: HashSet::new(),
            fin_registered: vec![],
            fin_maybe_ready: vec![],
            fin_must_ready: vec![],
            ref_registered: HashMap::new(),
            ref_enqueued: HashSet::new(),
            ref_maybe_dropped: HashSet::new(),
            high_water: 0,
            gcs_seen: 0,
            last_full_exhaustive: false,
            pending_exhaustive: false,
            moved_since_start: 0,
            used_after_gc: vec![],
            used_after_empty_gc: vec![],
            eph_model: vec![],
            dead_addrs: vec![],
            in_marking_ops: 0,
            nogc_allocated: 0,
            alloc_call_seq: 0,
            overcommitted: false,
            overcommitted_bytes: 0,
            sched: super::sched::SchedCheck::new(case.workers.max(1) as usize, case.plan == "ConcurrentImmix"),
            case,
        };
        let n = (e.case.mutators.max(1) as usize).min(MAX_MUTATORS);
        for m in 0..n {
            e.bind(m);
        }
        mm::initialize_collection(mmtk, mutator_tls(0).0);
        e
    }

    pub fn violate(&mut self, property: &str, signature: &str, detail: String) {
        if let Ok(ign) = std::env::var("VH_IGNORE") {
            if ign.split(',').any(|p| p == property) {
                return;
            }
        }
        self.verdict.violations.push(Violation { property: property.to_string(), step: self.step, detail, signature: signature.to_string() });
        self.verdict.ok = false;
        // End the process at the first violation: continuing on a damaged heap only produces
        // secondary crashes that would mask this verdict.
        println!("VERDICT {}", serde_json::to_string(&self.verdict).unwrap());
        use std::io::Write;
        let _ = std::io::stdout().flush();
        std::process::exit(1);
    }

    fn bind(&mut self, m: usize) {
        if self.bound[m] {
            return;
        }
        let mutator = mm::bind_mutator(self.mmtk, mutator_tls(m));
        let ptr = Box::into_raw(mutator) as usize;
        g().mutators.lock().unwrap()[m].ptr = ptr;
        self.bound[m] = true;
        cnt!(self, "bind");
    }

    fn destroy(&mut self, m: usize) {
        if !self.bound[m] || self.bound.iter().filter(|b| **b).count() <= 1 {
            return;
        }
        // a destroyed mutator's roots disappear
        for r in 0..ROOTS_PER_MUTATOR {
            self.set_root(m, r, 0, 0);
        }
        let ptr = {
            let mut muts = g().mutators.lock().unwrap();
            let p = muts[m].ptr;
            muts[m].ptr = 0;
            p
        };
        let mut b = unsafe { Box::from_raw(ptr as *mut Mutator<ShadowVM<V>>) };
        mm::destroy_mutator(&mut b);
        drop(b);
        self.bound[m] = false;
        cnt!(self, "destroy");
    }

    fn mutator(&self, m: usize) -> &'static mut Mutator<ShadowVM<V>> {
        let p = g().mutators.lock().unwrap()[m].ptr;
        unsafe { &mut *(p as *mut Mutator<ShadowVM<V>>) }
    }

    fn pick_m(&self, m: u8) -> usize {
        let bound: Vec<usize> = (0..MAX_MUTATORS).filter(|i| self.bound[*i]).collect();
        bound[(m as usize * bound.len()) >> 8]
    }

    fn root_idx(r: u8) -> usize {
        (r as usize * ROOTS_PER_MUTATOR) >> 8
    }

    fn root_addr(&self, m: usize, r: usize) -> usize {
        g().mutators.lock().unwrap()[m].roots[r].load(Ordering::Relaxed)
    }

    fn set_root(&mut self, m: usize, r: usize, id: u64, a: usize) {
        let muts = g().mutators.lock().unwrap();
        muts[m].roots[r].store(a, Ordering::Relaxed);
        if a == 0 {
            muts[m].root_kind[r].store(0, Ordering::Relaxed);
        }
        drop(muts);
        self.roots[m][r] = id;
        if a == 0 {
            self.root_kind[m][r] = 0;
        }
    }

    fn raw(&self, refaddr: usize) -> RawObj {
        RawObj { start: refaddr - self.ro }
    }

    // ------------------------------------------------------------ allocation

    /// Normalise an allocation request so that it is legal for the API.
    fn legal_request(&mut self, extra: usize, nrefs: usize, sem: u8, align_log: u8, offset_w: u8) -> (usize, AllocationSemantics, usize, usize) {
        let vd = variant(V);
        let mut size = HEADER_BYTES + 8 * nrefs + ((extra + 7) & !7);
        let mut sem = sem_of(sem);
        // Semantics the plan does not map to any allocator (Code/ReadOnly/LargeCode without the
        // `code_space`/`ro_space` features) are not legal requests: documented panic
        // "Allocator mapping is not initialized".
        if matches!(mm::get_allocator_mapping(self.mmtk, sem), mmtk::util::alloc::AllocatorSelector::None) {
            sem = AllocationSemantics::Default;
            cnt!(self, "steered_unmapped_semantics");
        }
        sem = self.steer_semantics(sem);
        // align in [MIN, MAX], power of two
        let max_log = vd.max_align.trailing_zeros() as u8;
        let min_log = vd.min_align.trailing_zeros() as u8;
        let al = min_log + (align_log % (max_log - min_log + 1));
        let mut align = 1usize << al;
        // offset multiple of MIN_ALIGNMENT, < align
        let mut offset = ((offset_w as usize) * vd.min_align) % align;
        if offset >= 128 {
            offset %= 128;
        }
        // the object reference must be word aligned and offsets are encoded in 4 bits
        match sem {
            AllocationSemantics::Los | AllocationSemantics::LargeCode => {}
            AllocationSemantics::NonMoving | AllocationSemantics::Code | AllocationSemantics::ReadOnly | AllocationSemantics::Immortal => {
                if size > 8192 {
                    size = 8192;
                }
            }
            AllocationSemantics::Default => {
                if size > self.max_non_los {
                    sem = AllocationSemantics::Los;
                } else if self.case.plan == "MarkSweep" && size + align - vd.min_align > self.max_non_los && !self.allow_known("mi-bin-align-slack") {
                    // known finding C35/C03 mi-bin-align-slack: the padded size exceeds the largest
                    // size class although size <= max_non_los_default_alloc_bytes.  Steer away.
                    sem = AllocationSemantics::Los;
                    cnt!(self, "steered_mi_bin_align_slack");
                }
            }
        }
        if self.is_nogc && size > 64 * 1024 {
            // keep NoGC runs from exhausting the heap with a few objects
        }
        // Observation 4 of DESIGN.md (bump allocator without alignment slack): steer away.
        let blk = 32768usize;
        let up = (size + blk - 1) / blk * blk;
        if offset != 0 && up - size < align - vd.min_align {
            offset = 0;
            align = vd.min_align;
            cnt!(self, "steered_bump_slack");
        }
        (size, sem, align, offset)
    }

    /// Steer allocation semantics away from listed known findings (counting what was steered).
    fn steer_semantics(&mut self, mut sem: AllocationSemantics) -> AllocationSemantics {
        // Known finding C01 compressor-stale-ref-from-immortal-or-nonmoving: the Compressor does not
        // update references held by objects of the immortal / non-moving spaces.
        if self.case.plan == "Compressor" && matches!(sem, AllocationSemantics::Immortal | AllocationSemantics::NonMoving | AllocationSemantics::Code | AllocationSemantics::ReadOnly) && !self.allow_known("compressor-stale-ref-from-immortal-or-nonmoving") {
            sem = AllocationSemantics::Default;
            cnt!(self, "steered_compressor_immortal");
        }
        // Known finding C01 markcompact-nonmoving-double-release: MarkCompact releases and prepares the
        // common spaces mid-GC, which sweeps the Immix non-moving space twice.
        if self.case.plan == "MarkCompact" && matches!(sem, AllocationSemantics::NonMoving) && !self.allow_known("markcompact-nonmoving-double-release") {
            sem = AllocationSemantics::Default;
            cnt!(self, "steered_markcompact_nonmoving");
        }
        sem
    }

    /// cases can opt into reproducing a known finding with the pseudo option `__allow:<signature>`
    pub fn allow_known(&self, sig: &str) -> bool {
        self.case.opts.iter().any(|(k, v)| k == "__allow" && v == sig)
    }

    fn expected_space(&self, m: usize, sem: AllocationSemantics) -> Option<&'static str> {
        mmtk::verif::space_name_for_semantics(self.mutator(m), sem)
    }

    /// Check C02/C03 on a fresh allocation result and register it.
    fn check_alloc_result(&mut self, m: usize, a: Address, size: usize, align: usize, offset: usize, sem: AllocationSemantics) -> bool {
        if a.is_zero() {
            return false;
        }
        let au = a.as_usize();
        if (au + offset) % align != 0 {
            self.violate("C03", "misaligned", format!("alloc({},{},{},{:?}) returned {:#x}: (A+offset) % align != 0", size, align, offset, sem, au));
        }
        // zeroed
        let bytes = unsafe { std::slice::from_raw_parts(au as *const u8, size) };
        if let Some(p) = bytes.iter().position(|b| *b != 0) {
            self.violate("C03", "not-zeroed", format!("alloc({},{},{},{:?}) at {:#x}: byte {} is {:#x}, not zero", size, align, offset, sem, au, p, bytes[p]));
        }
        // space
        let first = mmtk::verif::space_name_of(a);
        let last = mmtk::verif::space_name_of(a + (size - 1));
        if let Some(exp) = self.expected_space(m, sem) {
            if first != exp || last != exp {
                self.violate("C03", "wrong-space", format!("alloc({},{},{},{:?}) at {:#x}: in spaces {}/{}, plan maps the semantics to {}", size, align, offset, sem, au, first, last, exp));
            }
        }
        // overlap
        let end = au + size;
        let mut hit = None;
        if let Some((s, (e, id))) = self.intervals.range(..end).next_back() {
            if *e > au && *s < end {
                hit = Some((*s, *e, *id));
            }
        }
        if let Some((s, e, id)) = hit {
            self.violate("C02", "overlap", format!("alloc({},{:?}) returned [{:#x},{:#x}) overlapping object id {} at [{:#x},{:#x})", size, sem, au, end, id, s, e));
        }
        if au < self.high_water {
            cnt!(self, "alloc_recycled");
        }
        true
    }

    fn init_object(&mut self, m: usize, a: Address, size: usize, nrefs: usize, kind: u8, sem: AllocationSemantics, align: usize, offset: usize, semcode: u8) -> u64 {
        let id = self.next_id;
        self.next_id += 1;
        let au = a.as_usize();
        if std::env::var("VH_TRACE").is_ok() {
            eprintln!("alloc id={} at {:#x} size={} sem={:?} gcs={}", id, au, size, sem, self.gcs_seen);
        }
        RawObj::write_header(au, size, nrefs, kind, encode_align(align, offset), id);
        let raw = RawObj { start: au };
        let ps = raw.payload_start();
        let n = au + size - ps;
        let p = unsafe { std::slice::from_raw_parts_mut(ps as *mut u8, n) };
        for (i, b) in p.iter_mut().enumerate() {
            *b = payload_byte(id, i);
        }
        let refaddr = au + self.ro;
        mm::post_alloc(self.mutator(m), oref(refaddr), size, sem);
        let space = mmtk::verif::space_name_of(a);
        let never_collected = self.is_nogc || space == "immortal";
        if never_collected {
            self.immortal_ids.insert(id);
        }
        self.objs.insert(
            id,
            SObj { id, size, nrefs, kind, sem: semcode % 7, align, offset, fields: vec![0; nrefs], addr: refaddr, alloc_addr: refaddr, space, pinned: false, state: State::Live, alloc_gc: self.gcs_seen, survived: 0 },
        );
        self.addr2id.insert(refaddr, id);
        self.intervals.insert(au, (au + size, id));
        if au + size > self.high_water {
            self.high_water = au + size;
        }
        id
    }

    /// returns id (0 when the allocation failed)
    fn alloc_obj(&mut self, m: usize, extra: usize, nrefs: usize, kind: u8, semcode: u8, align_log: u8, offset_w: u8) -> u64 {
        let (size, sem, align, offset) = self.legal_request(extra, nrefs, semcode, align_log, offset_w);
        if self.is_nogc {
            // NoGC cannot collect: a program that exhausts the heap is out of domain ("GC triggered in nogc")
            let budget = (self.case.heap_kb as usize) * 1024 / 3;
            if self.nogc_allocated + size + 65536 > budget {
                cnt!(self, "steered_nogc_heap_budget");
                return 0;
            }
            self.nogc_allocated += size.max(4096);
        }
        let oom_before = g().oom_calls.load(Ordering::SeqCst);
        let a = mm::alloc(self.mutator(m), size, align, offset, sem);
        self.after_possible_gc();
        if a.is_zero() {
            let oom_after = g().oom_calls.load(Ordering::SeqCst);
            cnt!(self, "alloc_null");
            if oom_after == oom_before {
                self.violate("C10", "null-without-oom", format!("alloc({},{},{},{:?}) returned null without out_of_memory", size, align, offset, sem));
            }
            return 0;
        }
        cnt!(self, "alloc");
        if !self.check_alloc_result(m, a, size, align, offset, sem) {
            return 0;
        }
        if align > variant(V).min_align && offset != 0 {
            cnt!(self, "alloc_align_offset");
        }
        let semc = match sem {
            AllocationSemantics::Default => 0,
            AllocationSemantics::Immortal => 1,
            AllocationSemantics::Los => 2,
            AllocationSemantics::Code => 3,
            AllocationSemantics::ReadOnly => 4,
            AllocationSemantics::LargeCode => 5,
            AllocationSemantics::NonMoving => 6,
        };
        self.init_object(m, a, size, nrefs, kind, sem, align, offset, semc)
    }

    // ------------------------------------------------------------ barriers

    fn write_field(&mut self, m: usize, src_addr: usize, field: usize, target_addr: usize, subsuming: bool) {
        let raw = self.raw(src_addr);
        let slot = SimpleSlot::from_address(addr(raw.slot_addr(field)));
        let src = oref(src_addr);
        let target = if target_addr == 0 { None } else { Some(oref(target_addr)) };
        let mutator = self.mutator(m);
        match self.barrier {
            BarrierSelector::NoBarrier => raw.set_slot(field, target_addr),
            BarrierSelector::ObjectBarrier => {
                if subsuming && target.is_some() {
                    mm::object_reference_write(mutator, src, slot, target.unwrap());
                } else {
                    raw.set_slot(field, target_addr);
                    mm::object_reference_write_post(mutator, src, slot, target);
                }
            }
            BarrierSelector::SATBBarrier => {
                mm::object_reference_write_pre(mutator, src, slot, target);
                raw.set_slot(field, target_addr);
            }
        }
    }

    // ------------------------------------------------------------ ops

    pub fn run(&mut self) {
        let ops = self.case.ops.clone();
        for (i, op) in ops.iter().enumerate() {
            self.step = i;
            if std::env::var("VH_TRACE").is_ok() {
                eprintln!("step {}: {:?}", i, op);
            }
            self.exec_op(op);
            safepoint();
            self.after_possible_gc();
            if !self.verdict.ok {
                break;
            }
        }
        self.step = ops.len();
        if self.verdict.ok {
            self.finish();
        }
    }

    /// Feed the event log collected so far to the scheduler oracles (C11, C15, C16).
    pub fn check_events(&mut self) {
        let evs: Vec<Ev> = std::mem::take(&mut *g().events.lock().unwrap());
        if evs.is_empty() {
            return;
        }
        let bound: Vec<usize> = (0..MAX_MUTATORS).filter(|i| self.bound[*i]).collect();
        self.sched.set_bound_mutators(bound);
        for e in &evs {
            if let Some(v) = self.sched.feed(e) {
                self.violate(v.property, v.signature, v.detail);
                return;
            }
        }
    }

    pub fn after_possible_gc(&mut self) {
        self.check_events();
        if let Some(d) = g().worker_ident_violation.lock().unwrap().take() {
            self.violate("C16", "worker-respawned-with-different-identity", d);
            return;
        }
        {
            // no pause is in progress here (the driver is running): every packet the binding added during a
            // pause must have been executed in that pause
            let (a, r) = (g().vm_packets_added.load(Ordering::SeqCst), g().vm_packets_run.load(Ordering::SeqCst));
            if a != r && self.verdict.ok {
                self.violate("C15", "vm-packet-not-executed-in-its-gc", format!("the binding added {} work packets to later stages during pauses, {} were executed by the time the mutators resumed", a, r));
                return;
            }
            if a > 0 {
                self.verdict.counters.insert("vm_packets".to_string(), a);
            }
        }
        let r = g().resume_calls.load(Ordering::SeqCst);
        if r != self.last_resume {
            let n = r - self.last_resume;
            self.last_resume = r;
            self.gcs_seen += n;
            self.verify_after_gc(n);
        }
    }

    fn first_free_or(&self, m: usize, r: usize) -> usize {
        let _ = m;
        r
    }

    fn exec_op(&mut self, op: &Op) {
        if std::env::var("VH_TRACE_OPS").is_ok() && !matches!(op, Op::Churn { .. }) {
            eprintln!("    op {:?} marking={}", op, self.concurrent_marking_active());
        }
        match op {
            Op::Alloc { m, root, extra, nrefs, kind, sem, align_log, offset_w, referent } => {
                let m = self.pick_m(*m);
                let r = Self::root_idx(*root);
                let mut kind = *kind % 5;
                let mut nrefs = *nrefs as usize;
                if matches!(kind, KIND_SOFT | KIND_WEAK | KIND_PHANTOM) {
                    nrefs = nrefs.max(1);
                    if *self.mmtk.get_options().no_reference_types {
                        kind = KIND_PLAIN;
                    }
                }
                if kind == KIND_NODE && self.barrier == BarrierSelector::SATBBarrier {
                    // The SATB barrier's slow path enumerates the fields of the written object with
                    // SlotIterator, which documents (plan/tracing/mod.rs, FIXME / issue 1375) that it only
                    // works for objects supporting slot enqueuing and panics otherwise: out of domain.
                    kind = KIND_PLAIN;
                    cnt!(self, "steered_node_object_under_satb");
                }
                let ref_root = Self::root_idx(*referent);
                let id = self.alloc_obj(m, *extra as usize, nrefs, kind, *sem, *align_log, *offset_w);
                if id == 0 {
                    return;
                }
                let a = self.objs[&id].addr;
                if matches!(kind, KIND_SOFT | KIND_WEAK | KIND_PHANTOM) {
                    // set the referent at creation and register
                    let tid = self.roots[m][ref_root];
                    let ta = self.root_addr(m, ref_root);
                    let steer = tid != 0 && self.immortal_ids.contains(&tid) && !self.is_nogc && !self.allow_known("weakref-to-unreachable-immortal-not-cleared");
                    if steer {
                        cnt!(self, "steered_weakref_to_immortal");
                    }
                    if tid != 0 && tid != id && !steer {
                        self.raw(a).set_slot(0, ta);
                        self.objs.get_mut(&id).unwrap().fields[0] = tid;
                        match kind {
                            KIND_SOFT => mm::add_soft_candidate(self.mmtk, oref(a)),
                            KIND_WEAK => mm::add_weak_candidate(self.mmtk, oref(a)),
                            _ => mm::add_phantom_candidate(self.mmtk, oref(a)),
                        }
                        self.ref_registered.insert(id, kind);
                        cnt!(self, "ref_registered");
                    }
                }
                self.set_root(m, r, id, a);
            }
            Op::Write { m, src, field, dm, dst, null } => {
                let m = self.pick_m(*m);
                let dm = self.pick_m(*dm);
                let s = Self::root_idx(*src);
                let sid = self.roots[m][s];
                if sid == 0 {
                    return;
                }
                let (nrefs, kind) = {
                    let o = &self.objs[&sid];
                    (o.nrefs, o.kind)
                };
                let first = if matches!(kind, KIND_SOFT | KIND_WEAK | KIND_PHANTOM) { 1 } else { 0 };
                if nrefs <= first {
                    return;
                }
                let f = first + ((*field as usize) * (nrefs - first) >> 8);
                let (tid, ta) = if *null {
                    (0, 0)
                } else {
                    let d = Self::root_idx(*dst);
                    (self.roots[dm][d], self.root_addr(dm, d))
                };
                let sa = self.root_addr(m, s);
                let old = self.objs[&sid].fields[f];
                self.write_field(m, sa, f, ta, (*field & 1) == 1);
                self.objs.get_mut(&sid).unwrap().fields[f] = tid;
                cnt!(self, "write");
                if tid != 0 {
                    let (ss, ts) = (self.objs[&sid].survived, self.objs[&tid].survived);
                    if ss > 0 && ts == 0 {
                        cnt!(self, "write_old_to_young");
                    }
                    if self.objs[&sid].space != self.objs[&tid].space {
                        cnt!(self, "cross_space_edge");
                    }
                }
                if old != 0 && self.concurrent_marking_active() {
                    cnt!(self, "overwrite_during_marking");
                }
            }
            Op::Load { m, src, field, dst } => {
                let m = self.pick_m(*m);
                let s = Self::root_idx(*src);
                let d = Self::root_idx(*dst);
                let sid = self.roots[m][s];
                if sid == 0 {
                    return;
                }
                let (nrefs, kind) = {
                    let o = &self.objs[&sid];
                    (o.nrefs, o.kind)
                };
                let first = if matches!(kind, KIND_SOFT | KIND_WEAK | KIND_PHANTOM) { 1 } else { 0 };
                if nrefs <= first {
                    return;
                }
                let f = first + ((*field as usize) * (nrefs - first) >> 8);
                let sa = self.root_addr(m, s);
                let v = self.raw(sa).slot(f);
                let tid = self.objs[&sid].fields[f];
                if (v == 0) != (tid == 0) {
                    self.violate("C01", "field-null-mismatch", format!("field {} of object id {} reads {:#x}, shadow says id {}", f, sid, v, tid));
                    return;
                }
                self.set_root(m, d, tid, v);
            }
            Op::CopyRoot { m, from, dm, to } => {
                let m = self.pick_m(*m);
                let dm = self.pick_m(*dm);
                let f = Self::root_idx(*from);
                let t = Self::root_idx(*to);
                let id = self.roots[m][f];
                let a = self.root_addr(m, f);
                self.set_root(dm, t, id, a);
            }
            Op::DropRoot { m, root } => {
                let m = self.pick_m(*m);
                let r = Self::root_idx(*root);
                self.set_root(m, r, 0, 0);
            }
            Op::DropAllRoots => {
                for m in 0..MAX_MUTATORS {
                    for r in 0..ROOTS_PER_MUTATOR {
                        self.set_root(m, r, 0, 0);
                    }
                }
                for gi in 0..GLOBAL_ROOTS {
                    g().global_roots[gi].store(0, Ordering::Relaxed);
                    self.groots[gi] = 0;
                }
            }
            Op::SetGlobal { m, root, g: gi } => {
                let m = self.pick_m(*m);
                let r = Self::root_idx(*root);
                let gi = (*gi as usize * GLOBAL_ROOTS) >> 8;
                let id = self.roots[m][r];
                let a = self.root_addr(m, r);
                g().global_roots[gi].store(a, Ordering::Relaxed);
                self.groots[gi] = id;
            }
            Op::DropGlobal { g: gi } => {
                let gi = (*gi as usize * GLOBAL_ROOTS) >> 8;
                g().global_roots[gi].store(0, Ordering::Relaxed);
                self.groots[gi] = 0;
            }
            Op::RegionCopy { m, src, dst, si, di, len, with_obj } => {
                let m = self.pick_m(*m);
                let s = Self::root_idx(*src);
                let d = Self::root_idx(*dst);
                let (sid, did) = (self.roots[m][s], self.roots[m][d]);
                if sid == 0 || did == 0 {
                    return;
                }
                let (sn, sk) = (self.objs[&sid].nrefs, self.objs[&sid].kind);
                let (dn, dk) = (self.objs[&did].nrefs, self.objs[&did].kind);
                let sf = if matches!(sk, KIND_SOFT | KIND_WEAK | KIND_PHANTOM) { 1 } else { 0 };
                let df = if matches!(dk, KIND_SOFT | KIND_WEAK | KIND_PHANTOM) { 1 } else { 0 };
                if sn <= sf || dn <= df {
                    return;
                }
                let si = sf + ((*si as usize) * (sn - sf) >> 8);
                let di = df + ((*di as usize) * (dn - df) >> 8);
                let maxlen = (sn - si).min(dn - di);
                let len = 1 + ((*len as usize) * maxlen >> 8).min(maxlen - 1);
                let sa = self.root_addr(m, s);
                let da = self.root_addr(m, d);
                let sraw = self.raw(sa);
                let draw = self.raw(da);
                let src_slice = ShadowSlice { obj: if *with_obj { Some(oref(sa)) } else { None }, start: addr(sraw.slot_addr(si)), end: addr(sraw.slot_addr(si + len)) };
                let dst_slice = ShadowSlice { obj: if *with_obj { Some(oref(da)) } else { None }, start: addr(draw.slot_addr(di)), end: addr(draw.slot_addr(di + len)) };
                let mutator = self.mutator(m);
                match self.barrier {
                    BarrierSelector::NoBarrier => {
                        <ShadowSlice as mmtk::vm::slot::MemorySlice>::copy(&src_slice, &dst_slice);
                    }
                    BarrierSelector::ObjectBarrier => {
                        if len & 1 == 1 {
                            mm::memory_region_copy(mutator, src_slice, dst_slice);
                        } else {
                            <ShadowSlice as mmtk::vm::slot::MemorySlice>::copy(&src_slice, &dst_slice);
                            mm::memory_region_copy_post(mutator, src_slice, dst_slice);
                        }
                    }
                    BarrierSelector::SATBBarrier => {
                        mm::memory_region_copy_pre(mutator, src_slice.clone(), dst_slice.clone());
                        <ShadowSlice as mmtk::vm::slot::MemorySlice>::copy(&src_slice, &dst_slice);
                    }
                }
                let vals: Vec<u64> = self.objs[&sid].fields[si..si + len].to_vec();
                let dsurv = self.objs[&did].survived;
                for (k, v) in vals.iter().enumerate() {
                    if *v != 0 && dsurv > 0 && self.objs[v].survived == 0 {
                        cnt!(self, "write_old_to_young");
                        cnt!(self, "region_old_to_young");
                    }
                    self.objs.get_mut(&did).unwrap().fields[di + k] = *v;
                }
                cnt!(self, "region_copy");
            }
            Op::Pin { m, root } => {
                let m = self.pick_m(*m);
                let r = Self::root_idx(*root);
                let id = self.roots[m][r];
                if id == 0 {
                    return;
                }
                let a = self.root_addr(m, r);
                let space = mmtk::verif::space_name_of(addr(a));
                if !pin_supported(space) {
                    cnt!(self, "pin_skipped_unsupported_space");
                    return;
                }
                let _ = mm::pin_object(oref(a));
                // sft.rs documents `is_object_pinned` as the current pin state only for policies that
                // support pinning (Immix); non-moving policies answer inconsistently (ImmortalSpace: true,
                // MarkSweepSpace: false) and C04 does not talk about that return value.
                if space == "immix" || space == "nonmoving" {
                    if mm::is_pinned(oref(a)) {
                        self.objs.get_mut(&id).unwrap().pinned = true;
                        cnt!(self, "pin");
                    } else {
                        self.violate("C04", "pin-not-pinned", format!("is_pinned is false right after pin_object on id {} in space {}", id, space));
                    }
                }
            }
            Op::Unpin { m, root } => {
                let m = self.pick_m(*m);
                let r = Self::root_idx(*root);
                let id = self.roots[m][r];
                if id == 0 {
                    return;
                }
                let a = self.root_addr(m, r);
                let space = mmtk::verif::space_name_of(addr(a));
                if !pin_supported(space) {
                    return;
                }
                let _ = mm::unpin_object(oref(a));
                if space == "immix" || space == "nonmoving" {
                    self.objs.get_mut(&id).unwrap().pinned = false;
                }
            }
            Op::RootKind { m, root, kind } => {
                let m = self.pick_m(*m);
                let r = Self::root_idx(*root);
                let id = self.roots[m][r];
                if id == 0 {
                    return;
                }
                let k = (*kind % 3) as usize;
                // node roots require a plan that can pin
                let a = self.root_addr(m, r);
                let space = mmtk::verif::space_name_of(addr(a));
                if k != 0 && !pin_supported(space) {
                    return;
                }
                // plans whose GCWorkContext::PinningTrace is `UnsupportedTrace` ("plans that don't
                // support object pinning", plan/tracing/mod.rs) cannot be given pinning root nodes
                if k != 0 && !matches!(self.case.plan.as_str(), "Immix" | "StickyImmix" | "ConcurrentImmix" | "MarkSweep" | "PageProtect" | "NoGC") {
                    cnt!(self, "pinning_root_skipped_unsupported_plan");
                    return;
                }
                g().mutators.lock().unwrap()[m].root_kind[r].store(k, Ordering::Relaxed);
                self.root_kind[m][r] = k as u8;
                if k != 0 {
                    cnt!(self, "pinning_root");
                }
            }
            Op::AddFinalizer { m, root } => {
                let m = self.pick_m(*m);
                let r = Self::root_idx(*root);
                let id = self.roots[m][r];
                if id == 0 || *self.mmtk.get_options().no_finalizer {
                    return;
                }
                if self.immortal_ids.contains(&id) && !self.allow_known("finalizable-immortal-never-ready") {
                    // known finding C06 finalizable-immortal-never-ready (same root cause: is_live is always
                    // true in the immortal space): steer away, counting
                    cnt!(self, "steered_finalizer_on_immortal");
                    return;
                }
                let a = self.root_addr(m, r);
                mm::add_finalizer(self.mmtk, oref(a));
                self.fin_registered.push(id);
                cnt!(self, "finalizer_registered");
            }
            Op::PopFinalized { m, root, n } => {
                let m = self.pick_m(*m);
                let r = Self::root_idx(*root);
                self.pop_finalized(m, r, (*n as usize % 8) + 1);
            }
            Op::GetFinalizersFor { m, root } => {
                let mi = self.pick_m(*m);
                let mut r = Self::root_idx(*root);
                // prefer a rooted object that has an outstanding registration
                for k in 0..ROOTS_PER_MUTATOR {
                    let c = (r + k) % ROOTS_PER_MUTATOR;
                    if self.roots[mi][c] != 0 && self.fin_registered.contains(&self.roots[mi][c]) {
                        r = c;
                        break;
                    }
                }
                let id = self.roots[mi][r];
                if id == 0 {
                    return;
                }
                let a = self.root_addr(mi, r);
                let got = mm::get_finalizers_for(self.mmtk, oref(a));
                let expect = self.fin_registered.iter().filter(|x| **x == id).count();
                if got.len() != expect || got.iter().any(|o| o.to_raw_address().as_usize() != a) {
                    self.violate("C06", "get-finalizers-for-mismatch", format!("get_finalizers_for(object id {} at {:#x}) returned {:?}; {} registration(s) of that object are outstanding", id, a, got, expect));
                    return;
                }
                self.fin_registered.retain(|x| *x != id);
                self.fin_maybe_ready.retain(|x| *x != id);
                self.fin_must_ready.retain(|x| *x != id);
                cnt!(self, "get_finalizers_for");
                if expect > 0 {
                    cnt!(self, "get_finalizers_for_nonempty");
                }
            }
            Op::GetAllFinalizers => {
                let got = mm::get_all_finalizers(self.mmtk);
                let mut got_ids: Vec<u64> = got.iter().map(|o| self.raw(o.to_raw_address().as_usize()).id()).collect();
                let mut want = self.fin_registered.clone();
                got_ids.sort();
                want.sort();
                if got_ids != want {
                    self.violate("C06", "get-all-finalizers-mismatch", format!("get_all_finalizers returned objects with ids {:?}; outstanding registrations: {:?}", got_ids, want));
                    return;
                }
                // each returned object must be intact (it was kept alive by MMTk or is reachable)
                for o in &got {
                    let a = o.to_raw_address().as_usize();
                    let id = self.raw(a).id();
                    let mut w = Walk::default();
                    self.walk_from(&mut w, id, a, "object returned by get_all_finalizers");
                    self.walk_drain(&mut w);
                    if let Some(e) = w.error.take() {
                        self.violate("C06", "finalized-closure-damaged", e);
                        return;
                    }
                }
                self.fin_registered.clear();
                self.fin_maybe_ready.clear();
                self.fin_must_ready.clear();
                cnt!(self, "get_all_finalizers");
            }
            Op::AddEphemeron { m, key, val } => {
                let m = self.pick_m(*m);
                let k = Self::root_idx(*key);
                let v = Self::root_idx(*val);
                let (kid, vid) = (self.roots[m][k], self.roots[m][v]);
                if kid == 0 || vid == 0 {
                    return;
                }
                let (ka, va) = (self.root_addr(m, k), self.root_addr(m, v));
                g().weak.lock().unwrap().ephemerons.push(Ephemeron { key: ka, value: va, key_id: kid, value_id: vid, traced: false });
                self.eph_model.push((kid, vid));
                cnt!(self, "ephemeron");
            }
            Op::ClearReferent { m, root } => {
                let m = self.pick_m(*m);
                let r = Self::root_idx(*root);
                let id = self.roots[m][r];
                if id == 0 || !self.ref_registered.contains_key(&id) {
                    return;
                }
                let a = self.root_addr(m, r);
                self.raw(a).set_slot(0, 0);
                self.objs.get_mut(&id).unwrap().fields[0] = 0;
            }
            Op::GetReferent { m, src, dst } => {
                let m = self.pick_m(*m);
                let s = Self::root_idx(*src);
                let d = Self::root_idx(*dst);
                let id = self.roots[m][s];
                if id == 0 {
                    return;
                }
                let kind = self.objs[&id].kind;
                if !(kind == KIND_SOFT || kind == KIND_WEAK) {
                    return;
                }
                let a = self.root_addr(m, s);
                let v = self.raw(a).slot(0);
                let tid = self.objs[&id].fields[0];
                if (v == 0) != (tid == 0) {
                    self.violate("C06", "referent-null-mismatch", format!("referent of reference id {} reads {:#x}, shadow says id {}", id, v, tid));
                    return;
                }
                if v != 0 {
                    // weak reference load barrier (needed by SATB plans)
                    self.mutator(m).barrier.load_weak_reference(oref(v));
                }
                self.set_root(m, d, tid, v);
                cnt!(self, "get_referent");
            }
            Op::Gc { m, force, exhaustive } => {
                let m = self.pick_m(*m);
                if self.is_nogc {
                    return;
                }
                self.prepare_probes();
                self.pending_exhaustive = *force && *exhaustive;
                let pauses_before = g().resume_calls.load(Ordering::SeqCst);
                let ran = self.mmtk.handle_user_collection_request(mutator_tls(m), *force, *exhaustive);
                if ran {
                    cnt!(self, "gc_requested");
                    // C14: an accepted request has been served (the call blocks until the collection has ended)
                    if g().resume_calls.load(Ordering::SeqCst) == pauses_before {
                        self.violate("C14", "request-not-served", "handle_user_collection_request returned true but no collection completed".to_string());
                        return;
                    }
                }
                self.after_possible_gc();
                self.pending_exhaustive = false;
            }
            Op::RacingGc { m, k } => {
                let m0 = self.pick_m(*m);
                if self.is_nogc {
                    return;
                }
                let others: Vec<usize> = (0..MAX_MUTATORS).filter(|i| self.bound[*i] && *i != m0).take(1 + (*k as usize % 3)).collect();
                if others.is_empty() {
                    return;
                }
                self.prepare_probes();
                self.pending_exhaustive = false;
                let mmtk = self.mmtk;
                let handles: Vec<std::thread::JoinHandle<(bool, u64, u64)>> = others
                    .iter()
                    .map(|&mi| {
                        std::thread::spawn(move || {
                            super::vm::IS_GC_REQUEST_HELPER.with(|h| h.set(true));
                            let c0 = g().resume_calls.load(Ordering::SeqCst);
                            let ran = mmtk.handle_user_collection_request(mutator_tls(mi), true, false);
                            let c1 = g().resume_calls.load(Ordering::SeqCst);
                            (ran, c0, c1)
                        })
                    })
                    .collect();
                // let the helpers call in first: no pause can proceed before the driver thread parks, so each
                // helper either blocks in block_for_gc or (wrongly) returns
                let t0 = std::time::Instant::now();
                loop {
                    let done = handles.iter().filter(|h| h.is_finished()).count();
                    if done + g().helpers_blocked.load(Ordering::SeqCst) >= handles.len() || t0.elapsed().as_secs() >= 5 {
                        break;
                    }
                    std::thread::sleep(std::time::Duration::from_micros(100));
                }
                // the driver's own request parks the driver; the pending collection proceeds and wakes everybody
                for round in 0..20 {
                    let pauses_before = g().resume_calls.load(Ordering::SeqCst);
                    let ran = self.mmtk.handle_user_collection_request(mutator_tls(m0), true, false);
                    if !ran || g().resume_calls.load(Ordering::SeqCst) == pauses_before {
                        self.violate("C11", "gc-requester-not-blocked-until-gc-ended", format!("mutator {}: handle_user_collection_request(force) returned {} and {} collections ended during the call, while {} other mutators were requesting a collection too", m0, ran, g().resume_calls.load(Ordering::SeqCst) - pauses_before, handles.len()));
                        break;
                    }
                    cnt!(self, "gc_requested");
                    let stop_pending = g().sync.lock().unwrap().stop_requested;
                    if handles.iter().all(|h| h.is_finished()) && !stop_pending {
                        break;
                    }
                    if round > 0 {
                        std::thread::sleep(std::time::Duration::from_millis(1));
                    }
                }
                if !self.verdict.ok {
                    // leave the helper threads behind: the process exits with the verdict
                    return;
                }
                let n = handles.len();
                for (h, mi) in handles.into_iter().zip(others.iter()) {
                    let (ran, c0, c1) = h.join().unwrap();
                    if (!ran || c1 == c0) && self.verdict.ok {
                        self.violate("C11", "gc-requester-not-blocked-until-gc-ended", format!("mutator {} (one of {} mutators requesting a forced collection at the same time): handle_user_collection_request returned {} after {} collections had ended since its call", mi, n + 1, ran, c1 - c0));
                    }
                }
                cnt!(self, "racing_gc");
                self.after_possible_gc();
            }
            Op::Churn { m, kb, size } => {
                let m = self.pick_m(*m);
                let size = HEADER_BYTES + ((*size as usize) & !7).min(4096);
                let mut total = (*kb as usize) * 1024;
                if self.case.plan == "PageProtect" {
                    // every object occupies (and protects) whole pages: keep the object count comparable
                    total /= 48;
                }
                if self.is_nogc {
                    let budget = (self.case.heap_kb as usize) * 1024 / 3;
                    total = total.min(64 * 1024).min(budget.saturating_sub(self.nogc_allocated + 65536));
                    self.nogc_allocated += total + 32768;
                }
                let mut done = 0;
                while done < total && self.verdict.ok {
                    let a = mm::alloc(self.mutator(m), size, 8, 0, AllocationSemantics::Default);
                    self.after_possible_gc();
                    if a.is_zero() {
                        cnt!(self, "churn_null");
                        break;
                    }
                    if !self.check_alloc_result(m, a, size, 8, 0, AllocationSemantics::Default) {
                        break;
                    }
                    let id = self.init_object(m, a, size, 0, KIND_PLAIN, AllocationSemantics::Default, 8, 0, 0);
                    // dropped immediately: unreachable garbage (kept in `intervals` until the next GC)
                    let o = self.objs.remove(&id).unwrap();
                    self.addr2id.remove(&o.addr);
                    if self.immortal_ids.contains(&id) {
                        // under NoGC garbage stays forever
                    }
                    done += size;
                    safepoint();
                    self.after_possible_gc();
                }
                cnt!(self, "churn_bytes", done);
            }
            Op::AllocOpts { m, root, size_class, sem, overcommit, at_safepoint, allow_oom } => {
                let m = self.pick_m(*m);
                let r = Self::root_idx(*root);
                self.alloc_with_options(m, r, *size_class, *sem, *overcommit, *at_safepoint, *allow_oom);
            }
            Op::BindMutator { m } => {
                let m = (*m as usize * MAX_MUTATORS) >> 8;
                self.bind(m);
            }
            Op::DestroyMutator { m } => {
                let m = (*m as usize * MAX_MUTATORS) >> 8;
                self.destroy(m);
            }
            Op::CheckSideSpecs { seed } => super::probes::check_side_specs(self, *seed),
            Op::ForkCycle => self.fork_cycle(),
            Op::ForkDuringGc { m } => {
                if self.is_nogc {
                    return;
                }
                let before = g().fork_requested_in_gc.load(Ordering::SeqCst);
                g().fork_in_next_gc.store(true, Ordering::SeqCst);
                self.exec_op(&Op::Gc { m: *m, force: true, exhaustive: false });
                if !self.verdict.ok {
                    return;
                }
                if g().fork_requested_in_gc.load(Ordering::SeqCst) == before {
                    // no pause happened (the request was ignored): nothing was asked of the workers
                    g().fork_in_next_gc.store(false, Ordering::SeqCst);
                    return;
                }
                super::probes::fork_join_and_respawn(self);
                cnt!(self, "fork_during_gc");
            }
            Op::Probe { kind, seed } => self.probe(*kind, *seed),
            Op::Chain { m, root, n, extra, sem } => {
                let m = self.pick_m(*m);
                let r = Self::root_idx(*root);
                let n = (*n as usize % 64) + 1;
                let mut prev: (u64, usize) = (0, 0);
                for _ in 0..n {
                    let id = self.alloc_obj(m, *extra as usize, 2, KIND_PLAIN, *sem, 0, 0);
                    if id == 0 {
                        break;
                    }
                    // the previous head may have moved if a GC happened: re-read through the root
                    let a = self.objs[&id].addr;
                    if prev.0 != 0 {
                        let pa = self.root_addr(m, r);
                        self.write_field(m, a, 0, pa, false);
                        self.objs.get_mut(&id).unwrap().fields[0] = prev.0;
                    }
                    self.set_root(m, r, id, a);
                    prev = (id, a);
                }
            }
            Op::EphChain { m, root, k } => {
                let m = self.pick_m(*m);
                let r = Self::root_idx(*root);
                self.eph_chain(m, r, (*k % 7) as usize);
            }
            Op::OldYoung { m, src, field, extra, via_region } => {
                let m = self.pick_m(*m);
                let mut s = Self::root_idx(*src);
                // prefer a source object that has survived a GC (search the roots upwards from `s`)
                for k in 0..ROOTS_PER_MUTATOR {
                    let c = (s + k) % ROOTS_PER_MUTATOR;
                    let id = self.roots[m][c];
                    if id != 0 && self.objs[&id].survived > 0 && self.objs[&id].nrefs > 1 {
                        s = c;
                        break;
                    }
                }
                let sid = self.roots[m][s];
                if sid == 0 {
                    return;
                }
                let (nrefs, kind, surv) = {
                    let o = &self.objs[&sid];
                    (o.nrefs, o.kind, o.survived)
                };
                let first = if matches!(kind, KIND_SOFT | KIND_WEAK | KIND_PHANTOM) { 1 } else { 0 };
                if nrefs <= first {
                    return;
                }
                let f = first + ((*field as usize) * (nrefs - first) >> 8);
                // young object, never stored in a root
                let yid = self.alloc_obj(m, *extra as usize, 2, KIND_PLAIN, 0, 0, 0);
                if yid == 0 {
                    return;
                }
                // the allocation may have triggered a GC: the young object is unrooted at that point only
                // *before* it was returned, so it is still valid here; re-read the source through its root
                let ya = self.objs[&yid].addr;
                let sa = self.root_addr(m, s);
                if *via_region && nrefs - first >= 1 {
                    // store into a scratch slot of the young object itself, then array-copy into the old one
                    self.raw(ya).set_slot(0, ya);
                    self.objs.get_mut(&yid).unwrap().fields[0] = yid;
                    let yraw = self.raw(ya);
                    let sraw = self.raw(sa);
                    // half of the copies use slices that do not name their holder object (like the default
                    // `Range<Address>` slice type): the barrier must then decide from the slice addresses
                    let with_obj = *extra & 1 == 0;
                    if !with_obj {
                        cnt!(self, "region_old_to_young_no_holder");
                    }
                    let src_slice = ShadowSlice { obj: with_obj.then(|| oref(ya)), start: addr(yraw.slot_addr(0)), end: addr(yraw.slot_addr(1)) };
                    let dst_slice = ShadowSlice { obj: with_obj.then(|| oref(sa)), start: addr(sraw.slot_addr(f)), end: addr(sraw.slot_addr(f + 1)) };
                    let mutator = self.mutator(m);
                    match self.barrier {
                        BarrierSelector::NoBarrier => <ShadowSlice as mmtk::vm::slot::MemorySlice>::copy(&src_slice, &dst_slice),
                        BarrierSelector::ObjectBarrier => mm::memory_region_copy(mutator, src_slice, dst_slice),
                        BarrierSelector::SATBBarrier => {
                            mm::memory_region_copy_pre(mutator, src_slice.clone(), dst_slice.clone());
                            <ShadowSlice as mmtk::vm::slot::MemorySlice>::copy(&src_slice, &dst_slice);
                        }
                    }
                    cnt!(self, "region_old_to_young");
                } else {
                    self.write_field(m, sa, f, ya, false);
                }
                self.objs.get_mut(&sid).unwrap().fields[f] = yid;
                if surv > 0 {
                    cnt!(self, "young_only_via_old");
                    cnt!(self, "write_old_to_young");
                }
            }
            Op::MsFill { m, size } => {
                let m = self.pick_m(*m);
                if self.case.plan != "MarkSweep" {
                    return;
                }
                use mmtk::verif::marksweep as ms;
                let size = (HEADER_BYTES + ((*size as usize) & !7)).min(ms::MAX_BIN_SIZE);
                let bin = ms::mi_bin::<ShadowVM<V>>(size, 8);
                let cell = ms::bin_sizes()[bin];
                let expect = ms::BLOCK_BYTES / cell;
                let mut addrs: Vec<usize> = vec![];
                let mut block = 0usize;
                for _ in 0..expect + 2 {
                    let a = mm::alloc(self.mutator(m), size, 8, 0, AllocationSemantics::Default);
                    self.after_possible_gc();
                    if a.is_zero() {
                        break;
                    }
                    if !self.check_alloc_result(m, a, size, 8, 0, AllocationSemantics::Default) {
                        return;
                    }
                    let id = self.init_object(m, a, size, 0, KIND_PLAIN, AllocationSemantics::Default, 8, 0, 0);
                    let o = self.objs.remove(&id).unwrap();
                    self.addr2id.remove(&o.addr);
                    let au = a.as_usize();
                    let b = au & !(ms::BLOCK_BYTES - 1);
                    if addrs.is_empty() {
                        block = b;
                    }
                    if b != block {
                        break;
                    }
                    addrs.push(au);
                }
                if self.gcs_seen > 0 {
                    return; // not a fresh block any more
                }
                if addrs.len() != expect {
                    self.violate("C35", "fresh-block-cell-count", format!("size {} (bin {}, cell {}): a fresh {}-byte block yielded {} cells, expected floor(block/cell) = {}", size, bin, cell, ms::BLOCK_BYTES, addrs.len(), expect));
                    return;
                }
                let mut sorted = addrs.clone();
                sorted.sort();
                for w in sorted.windows(2) {
                    if w[1] - w[0] < cell || (w[1] - w[0]) % cell != 0 {
                        self.violate("C35", "fresh-block-cell-spacing", format!("size {} (cell {}): cells at {:#x} and {:#x} are not cell-size apart", size, cell, w[0], w[1]));
                        return;
                    }
                }
                if sorted[0] < block || sorted[sorted.len() - 1] + cell > block + ms::BLOCK_BYTES {
                    self.violate("C35", "fresh-block-cell-outside", format!("size {} (cell {}): cells [{:#x}..{:#x}+cell) leave the block {:#x}", size, cell, sorted[0], sorted[sorted.len() - 1], block));
                    return;
                }
                cnt!(self, "msfill_checked");
            }
            Op::WeakPair { m, root, kind, keep, sem, chain, fin } => {
                let m = self.pick_m(*m);
                let r = Self::root_idx(*root);
                self.weak_pair(m, r, *kind, *keep, *sem, *chain, *fin);
            }
            Op::FinObj { m, root, n, regs, drop } => {
                let m = self.pick_m(*m);
                let r = Self::root_idx(*root);
                if *self.mmtk.get_options().no_finalizer {
                    return;
                }
                // closure: a chain of n objects behind the finalizable head
                let n = (*n as usize % 8) + 1;
                let mut prev: u64 = 0;
                for _ in 0..n {
                    let id = self.alloc_obj(m, 24, 2, KIND_PLAIN, 0, 0, 0);
                    if id == 0 {
                        return;
                    }
                    let a = self.objs[&id].addr;
                    if prev != 0 {
                        let pa = self.root_addr(m, r);
                        self.write_field(m, a, 0, pa, false);
                        self.objs.get_mut(&id).unwrap().fields[0] = prev;
                    }
                    self.set_root(m, r, id, a);
                    prev = id;
                }
                let a = self.root_addr(m, r);
                for _ in 0..(*regs).clamp(1, 3) {
                    mm::add_finalizer(self.mmtk, oref(a));
                    self.fin_registered.push(prev);
                    cnt!(self, "finalizer_registered");
                }
                if *drop {
                    self.set_root(m, r, 0, 0);
                }
            }
            Op::DenseFill { m, root, n, extra, keep } => {
                let m = self.pick_m(*m);
                let r = Self::root_idx(*root);
                let groups = (*n as usize % 32) + 1;
                let k = (*keep as usize % 4) + 1;
                let extra = (*extra as usize) & !7;
                if self.is_nogc {
                    return;
                }
                const SLOTS: usize = 64;
                self.set_root(m, r, 0, 0);
                'outer: for _ in 0..groups {
                    // holder: slot 63 chains to the previous holder
                    let hid = self.alloc_obj(m, 0, SLOTS, KIND_PLAIN, 0, 0, 0);
                    if hid == 0 {
                        break;
                    }
                    let ha = self.objs[&hid].addr;
                    let prev = self.roots[m][r];
                    if prev != 0 {
                        let pa = self.root_addr(m, r);
                        self.write_field(m, ha, SLOTS - 1, pa, false);
                        self.objs.get_mut(&hid).unwrap().fields[SLOTS - 1] = prev;
                    }
                    self.set_root(m, r, hid, ha);
                    for i in 0..(SLOTS - 1) * k {
                        let id = self.alloc_obj(m, extra, 0, KIND_PLAIN, 0, 0, 0);
                        if id == 0 {
                            break 'outer;
                        }
                        if i % k == 0 {
                            let a = self.objs[&id].addr;
                            let ha = self.root_addr(m, r);
                            let hid = self.roots[m][r];
                            self.write_field(m, ha, i / k, a, false);
                            self.objs.get_mut(&hid).unwrap().fields[i / k] = id;
                        } else {
                            // garbage right away (its interval stays until the next GC)
                            let o = self.objs.remove(&id).unwrap();
                            self.addr2id.remove(&o.addr);
                            if self.dead_addrs.len() < 4096 {
                                self.dead_addrs.push((o.addr, id, o.size));
                            }
                        }
                        if !self.verdict.ok {
                            return;
                        }
                    }
                }
                cnt!(self, "dense_fill");
            }
            Op::MarkingWindow { m, seed, n } => {
                let mi = self.pick_m(*m);
                if self.case.plan != "ConcurrentImmix" {
                    return;
                }
                let mut rng = super::probes::Lcg(*seed as u64 ^ 0x9E37_79B9_7F4A_7C15);
                // phase 0 (usually before marking starts): holders whose fields are the only path to their
                // referents (sources of Hide), and holders with empty fields (destinations)
                let code = |idx: usize| ((idx * 256 + ROOTS_PER_MUTATOR - 1) / ROOTS_PER_MUTATOR) as u8;
                let base = rng.below(ROOTS_PER_MUTATOR);
                for h in 0..4usize {
                    let r = (base + h * 5) % ROOTS_PER_MUTATOR;
                    let hid = self.alloc_obj(mi, 0, 6, KIND_PLAIN, 0, 0, 0);
                    if hid == 0 {
                        return;
                    }
                    let ha = self.objs[&hid].addr;
                    self.set_root(mi, r, hid, ha);
                    if h < 2 {
                        for f in 0..6 {
                            let sem = if f == 5 { 2 } else { 0 };
                            let cid = self.alloc_obj(mi, if f == 5 { 70000 } else { 16 * f }, 1, KIND_PLAIN, sem, 0, 0);
                            if cid == 0 {
                                return;
                            }
                            let ca = self.objs[&cid].addr;
                            let ha = self.root_addr(mi, r);
                            let hid = self.roots[mi][r];
                            self.write_field(mi, ha, f, ca, false);
                            self.objs.get_mut(&hid).unwrap().fields[f] = cid;
                        }
                    }
                }
                // phase 1: allocate garbage until concurrent marking starts (bounded by the heap size)
                let mut budget = (self.case.heap_kb as usize) * 1024;
                while !self.concurrent_marking_active() && budget > 0 && self.verdict.ok {
                    self.exec_op(&Op::Churn { m: *m, kb: 64, size: 96 });
                    budget = budget.saturating_sub(64 * 1024);
                }
                if !self.concurrent_marking_active() {
                    cnt!(self, "marking_window_not_started");
                    return;
                }
                cnt!(self, "marking_window");
                // phase 2: mutate while marking is in progress
                let mut done = 0;
                for _ in 0..(*n as usize) * 8 {
                    if !self.concurrent_marking_active() || !self.verdict.ok {
                        break;
                    }
                    let mut a = rng.below(256) as u8;
                    let mut b = rng.below(256) as u8;
                    let c = rng.below(256) as u8;
                    let choice = rng.below(10);
                    if choice <= 3 {
                        // Hide: pick a source with a non-null field and a destination with slots among the roots
                        let srcs: Vec<usize> = (0..ROOTS_PER_MUTATOR).filter(|r| { let id = self.roots[mi][*r]; id != 0 && self.objs[&id].kind == KIND_PLAIN && self.objs[&id].fields.iter().any(|f| *f != 0) }).collect();
                        let dsts: Vec<usize> = (0..ROOTS_PER_MUTATOR).filter(|r| { let id = self.roots[mi][*r]; id != 0 && self.objs[&id].kind == KIND_PLAIN && self.objs[&id].nrefs > 0 }).collect();
                        if !srcs.is_empty() && dsts.len() > 1 {
                            a = code(srcs[rng.below(srcs.len())]);
                            b = code(dsts[rng.below(dsts.len())]);
                        }
                    }
                    let op = match choice {
                        0..=3 => Op::Hide { m: *m, src: a, dst: b },
                        4 => Op::Write { m: *m, src: a, field: c, dm: *m, dst: b, null: false },
                        5 => Op::Write { m: *m, src: a, field: c, dm: *m, dst: b, null: true },
                        6 => Op::OldYoung { m: *m, src: a, field: c, extra: (c as u16) * 4, via_region: c & 1 == 1 },
                        7 => Op::Alloc { m: *m, root: a, extra: if c & 3 == 0 { 70000 } else { c as u32 * 8 }, nrefs: 3, kind: 0, sem: [0u8, 0, 2, 6][(c >> 2) as usize & 3], align_log: 0, offset_w: 0, referent: b },
                        8 => Op::Load { m: *m, src: a, field: c, dst: b },
                        _ => Op::DropRoot { m: *m, root: a },
                    };
                    self.exec_op(&op);
                    safepoint();
                    self.after_possible_gc();
                    done += 1;
                }
                let _ = mi;
                cnt!(self, "marking_window_ops", done);
            }
            Op::GcLoop { m, n, seed } => {
                if self.is_nogc {
                    return;
                }
                let mut rng = super::probes::Lcg(*seed as u64 ^ 0xD1B5_4A32_D192_ED03);
                for _ in 0..(*n as usize) {
                    if !self.verdict.ok {
                        return;
                    }
                    let a = rng.below(256) as u8;
                    let b = rng.below(256) as u8;
                    match rng.below(4) {
                        0 => self.exec_op(&Op::Chain { m: *m, root: a, n: (b % 12), extra: 40 + (b as u16 % 5) * 100, sem: 0 }),
                        1 => self.exec_op(&Op::DropRoot { m: *m, root: a }),
                        2 => self.exec_op(&Op::Alloc { m: *m, root: a, extra: 300 + b as u32 * 3, nrefs: 2, kind: 0, sem: 0, align_log: 0, offset_w: 0, referent: b }),
                        _ => self.exec_op(&Op::Write { m: *m, src: a, field: b, dm: *m, dst: b, null: false }),
                    }
                    self.exec_op(&Op::Gc { m: *m, force: true, exhaustive: true });
                }
                cnt!(self, "gc_loop");
                if *n >= 120 {
                    cnt!(self, "gc_loop_long");
                }
            }
            Op::Hide { m, src, dst } => {
                let m = self.pick_m(*m);
                let s = Self::root_idx(*src);
                let d = Self::root_idx(*dst);
                let (sid, did) = (self.roots[m][s], self.roots[m][d]);
                if sid == 0 || did == 0 || sid == did {
                    return;
                }
                let skind = self.objs[&sid].kind;
                let dkind = self.objs[&did].kind;
                let sf = if matches!(skind, KIND_SOFT | KIND_WEAK | KIND_PHANTOM) { 1 } else { 0 };
                let df = if matches!(dkind, KIND_SOFT | KIND_WEAK | KIND_PHANTOM) { 1 } else { 0 };
                let Some(f) = (sf..self.objs[&sid].nrefs).find(|i| self.objs[&sid].fields[*i] != 0) else { return };
                if self.objs[&did].nrefs <= df {
                    return;
                }
                let g = df + (sid as usize % (self.objs[&did].nrefs - df));
                let xid = self.objs[&sid].fields[f];
                let sa = self.root_addr(m, s);
                let xa = self.raw(sa).slot(f);
                let da = self.root_addr(m, d);
                let marking = self.concurrent_marking_active();
                // dst.g = x ; src.f = null ; forget x in every root
                self.write_field(m, da, g, xa, false);
                self.objs.get_mut(&did).unwrap().fields[g] = xid;
                let sa = self.root_addr(m, s);
                self.write_field(m, sa, f, 0, false);
                self.objs.get_mut(&sid).unwrap().fields[f] = 0;
                for mm_ in 0..MAX_MUTATORS {
                    for rr in 0..ROOTS_PER_MUTATOR {
                        if self.roots[mm_][rr] == xid {
                            self.set_root(mm_, rr, 0, 0);
                        }
                    }
                }
                for gi in 0..GLOBAL_ROOTS {
                    if self.groots[gi] == xid {
                        g_clear(gi);
                        self.groots[gi] = 0;
                    }
                }
                cnt!(self, "hide");
                if marking {
                    cnt!(self, "hide_during_marking");
                    cnt!(self, "overwrite_during_marking");
                }
            }
            Op::FanIn { m, target, holder, n } => {
                let m = self.pick_m(*m);
                let t = Self::root_idx(*target);
                let h = Self::root_idx(*holder);
                let tid = self.roots[m][t];
                if tid == 0 || t == h {
                    return;
                }
                let n = (*n as usize % 48) + 2;
                // holder: one object with n slots all pointing at target, plus n small objects in a chain each pointing at target
                let hid = self.alloc_obj(m, 0, n, KIND_PLAIN, 0, 0, 0);
                if hid == 0 {
                    return;
                }
                let ha = self.objs[&hid].addr;
                self.set_root(m, h, hid, ha);
                for i in 0..n {
                    let ta = self.root_addr(m, t);
                    let ha = self.root_addr(m, h);
                    self.write_field(m, ha, i, ta, false);
                    self.objs.get_mut(&hid).unwrap().fields[i] = tid;
                }
                cnt!(self, "fan_in");
            }
        }
    }

    /// WeakPair: see `Op::WeakPair`.
    fn weak_pair(&mut self, m: usize, r: usize, kind: u8, keep: u8, sem: u8, chain: u8, fin: bool) {
        if *self.mmtk.get_options().no_reference_types {
            return;
        }
        let kind = match kind % 3 {
            0 => KIND_SOFT,
            1 => KIND_WEAK,
            _ => KIND_PHANTOM,
        };
        let r1 = (r + 1) % ROOTS_PER_MUTATOR;
        let r2 = (r + 2) % ROOTS_PER_MUTATOR;
        let mut sem = sem;
        if matches!(sem % 7, 1 | 3 | 4) && !self.allow_known("weakref-to-unreachable-immortal-not-cleared") {
            // known finding C06 weakref-to-unreachable-immortal-not-cleared: steer away, counting
            sem = 0;
            cnt!(self, "steered_weakref_to_immortal");
        }
        // referent with a chain behind it, kept in r1 while we build
        let mut prev: u64 = 0;
        for i in 0..=(chain as usize % 4) {
            let id = self.alloc_obj(m, 16, 2, KIND_PLAIN, if i == (chain as usize % 4) { sem } else { 0 }, 0, 0);
            if id == 0 {
                return;
            }
            let a = self.objs[&id].addr;
            if prev != 0 {
                let pa = self.root_addr(m, r1);
                self.write_field(m, a, 0, pa, false);
                self.objs.get_mut(&id).unwrap().fields[0] = prev;
            }
            self.set_root(m, r1, id, a);
            prev = id;
        }
        let tid = prev;
        // the reference object
        let rid = self.alloc_obj(m, 8, 2, kind, 0, 0, 0);
        if rid == 0 {
            return;
        }
        let ra = self.objs[&rid].addr;
        self.set_root(m, r, rid, ra);
        let ta = self.root_addr(m, r1);
        if self.roots[m][r1] != tid {
            return;
        }
        self.raw(ra).set_slot(0, ta);
        self.objs.get_mut(&rid).unwrap().fields[0] = tid;
        match kind {
            KIND_SOFT => mm::add_soft_candidate(self.mmtk, oref(ra)),
            KIND_WEAK => mm::add_weak_candidate(self.mmtk, oref(ra)),
            _ => mm::add_phantom_candidate(self.mmtk, oref(ra)),
        }
        self.ref_registered.insert(rid, kind);
        cnt!(self, "ref_registered");
        if fin && !*self.mmtk.get_options().no_finalizer {
            mm::add_finalizer(self.mmtk, oref(ta));
            self.fin_registered.push(tid);
            cnt!(self, "finalizer_registered");
        }
        match keep % 4 {
            0 => self.set_root(m, r1, 0, 0),
            1 => {}
            2 => {
                // held by a field of obj(r2) if there is one with slots
                let hid = self.roots[m][r2];
                if hid != 0 && hid != rid && self.objs[&hid].nrefs >= 2 && self.objs[&hid].kind == KIND_PLAIN {
                    let ha = self.root_addr(m, r2);
                    self.write_field(m, ha, 1, ta, false);
                    self.objs.get_mut(&hid).unwrap().fields[1] = tid;
                }
                self.set_root(m, r1, 0, 0);
            }
            _ => {
                // only softly reachable: a second, soft reference object in r2 names the referent
                let sid = self.alloc_obj(m, 8, 1, KIND_SOFT, 0, 0, 0);
                if sid != 0 {
                    let sa = self.objs[&sid].addr;
                    let ta = self.root_addr(m, r1);
                    if self.roots[m][r1] == tid {
                        self.raw(sa).set_slot(0, ta);
                        self.objs.get_mut(&sid).unwrap().fields[0] = tid;
                        mm::add_soft_candidate(self.mmtk, oref(sa));
                        self.ref_registered.insert(sid, KIND_SOFT);
                        cnt!(self, "ref_registered");
                    }
                    self.set_root(m, r2, sid, sa);
                }
                self.set_root(m, r1, 0, 0);
            }
        }
        cnt!(self, "weak_pair");
    }

    fn concurrent_marking_active(&self) -> bool {
        mmtk::verif::concurrent_marking_in_progress(self.mmtk) == Some(true)
    }

    fn eph_chain(&mut self, m: usize, r: usize, k: usize) {
        // key_0 is strongly reachable from root r; value_i references key_{i+1};
        // everything beyond key_0 is reachable only through the ephemeron table.
        let tv = (r + 1) % ROOTS_PER_MUTATOR;
        let tk = [(r + 2) % ROOTS_PER_MUTATOR, (r + 3) % ROOTS_PER_MUTATOR];
        let k0 = self.alloc_obj(m, 8, 1, KIND_PLAIN, 0, 0, 0);
        if k0 == 0 {
            return;
        }
        let a = self.objs[&k0].addr;
        self.set_root(m, r, k0, a);
        let mut key_root = r;
        let mut built = 0;
        for i in 0..=k {
            // every third value lives outside the default space (non-moving, large-object or immortal
            // semantics in turn): such a value is reachable only through the table and is traced only by
            // process_weak_refs / forward_weak_refs
            let vsem = if (i + k) % 3 == 2 { [6u8, 2, 1][(i / 3 + k) % 3] } else { 0 };
            let vid = self.alloc_obj(m, 16, 1, KIND_PLAIN, vsem, 0, 0);
            if vid == 0 {
                break;
            }
            let va = self.objs[&vid].addr;
            self.set_root(m, tv, vid, va);
            let kid = self.roots[m][key_root];
            let ka = self.root_addr(m, key_root);
            g().weak.lock().unwrap().ephemerons.push(Ephemeron { key: ka, value: va, key_id: kid, value_id: vid, traced: false });
            self.eph_model.push((kid, vid));
            cnt!(self, "ephemeron");
            built += 1;
            if i == k {
                break;
            }
            let nk = self.alloc_obj(m, 8, 1, KIND_PLAIN, 0, 0, 0);
            if nk == 0 {
                break;
            }
            let nka = self.objs[&nk].addr;
            let nkr = tk[i % 2];
            self.set_root(m, nkr, nk, nka);
            let va = self.root_addr(m, tv);
            self.write_field(m, va, 0, nka, false);
            self.objs.get_mut(&vid).unwrap().fields[0] = nk;
            key_root = nkr;
        }
        self.set_root(m, tv, 0, 0);
        self.set_root(m, tk[0], 0, 0);
        self.set_root(m, tk[1], 0, 0);
        cnt!(self, "eph_chain");
        if built >= 3 {
            cnt!(self, "eph_chain_depth_ge2");
        }
    }

    fn pop_finalized(&mut self, m: usize, r: usize, n: usize) {
        let drain = n == 8;
        let n = if drain { usize::MAX } else { n };
        for i in 0..n {
            let Some(o) = mm::get_finalized_object(self.mmtk) else {
                // the ready queue is empty: every registration the model knows to be ready must have been returned
                if let Some(id) = self.fin_must_ready.first().copied() {
                    let sig = if self.immortal_ids.contains(&id) { "finalizable-immortal-never-ready" } else { "finalizable-not-returned" };
                    self.violate("C06", sig, format!("get_finalized_object returned None although object id {} (registered, unreachable at the last exhaustive GC) was never returned", id));
                    return;
                }
                if drain {
                    cnt!(self, "finalized_drained");
                }
                break;
            };
            let a = o.to_raw_address().as_usize();
            let id = self.raw(a).id();
            cnt!(self, "finalized_popped");
            if let Some(p) = self.fin_maybe_ready.iter().position(|x| *x == id) {
                self.fin_maybe_ready.swap_remove(p);
                if let Some(p) = self.fin_must_ready.iter().position(|x| *x == id) {
                    self.fin_must_ready.swap_remove(p);
                }
                if let Some(p) = self.fin_registered.iter().position(|x| *x == id) {
                    self.fin_registered.swap_remove(p);
                }
            } else if self.fin_registered.contains(&id) {
                self.violate("C06", "finalized-while-reachable", format!("get_finalized_object returned object id {} which was reachable at every GC since registration", id));
                return;
            } else {
                self.violate("C06", "finalized-unregistered", format!("get_finalized_object returned object id {} at {:#x} with no outstanding registration (returned more than once?)", id, a));
                return;
            }
            // the object and its closure must be intact
            if !self.objs.contains_key(&id) {
                self.violate("C06", "finalized-unknown", format!("finalized object id {} is not in the shadow heap (its memory was reclaimed and reused?)", id));
                return;
            }
            let mut w = Walk::default();
            self.walk_from(&mut w, id, a, "finalized object");
            self.walk_drain(&mut w);
            if let Some(e) = w.error.take() {
                self.violate("C06", "finalized-closure-damaged", e);
                return;
            }
            self.apply_partial_walk(&w);
            if i == 0 {
                self.set_root(m, r, id, a);
            }
        }
    }

    // ------------------------------------------------------------ the lock-step walk

    fn walk_from(&mut self, w: &mut Walk, id: u64, a: usize, via: &str) {
        if id == 0 && a == 0 {
            return;
        }
        if (id == 0) != (a == 0) {
            w.err(format!("{}: memory holds {:#x} but the shadow heap expects id {}", via, a, id));
            return;
        }
        if let Some(prev) = w.new_addr.get(&id) {
            if *prev != a {
                w.err(format!("{}: object id {} is referenced at {:#x} but was already found at {:#x} (identity not preserved)", via, id, a, prev));
            }
            return;
        }
        if let Some(other) = w.seen_addr.get(&a) {
            if *other != id {
                w.err(format!("{}: address {:#x} is the copy of both id {} and id {} (distinct objects merged)", via, a, other, id));
            }
            return;
        }
        if a % 8 != 0 {
            w.err(format!("{}: reference {:#x} to id {} is not word aligned", via, a, id));
            return;
        }
        w.new_addr.insert(id, a);
        w.seen_addr.insert(a, id);
        w.parent.insert(id, w.cur_holder);
        w.queue.push((id, a));
    }

    fn walk_drain(&mut self, w: &mut Walk) {
        while let Some((id, a)) = w.queue.pop() {
            if w.error.is_some() {
                return;
            }
            let Some(o) = self.objs.get(&id) else {
                w.err(format!("reached id {} at {:#x} which the shadow heap no longer tracks", id, a));
                return;
            };
            let o = o.clone();
            // problems with the object itself (found through a possibly stale reference) are attributed
            // to the object holding that reference
            w.cur_holder = w.parent.get(&id).copied().unwrap_or(0);
            let path_note = if std::env::var("VH_PATH").is_ok() {
                let mut p = vec![];
                let mut cur = id;
                while let Some(par) = w.parent.get(&cur) {
                    if *par == 0 || p.len() > 20 {
                        break;
                    }
                    let o = &self.objs[par];
                    p.push(format!("id {} @{:#x} {} alloc_gc={} survived={}", par, o.addr, o.space, o.alloc_gc, o.survived));
                    cur = *par;
                }
                format!(" path-to-root: {:?}", p)
            } else {
                String::new()
            };
            let via_note = match self.objs.get(&w.cur_holder) {
                Some(p) if matches!(p.kind, KIND_SOFT | KIND_WEAK | KIND_PHANTOM) && p.fields.first() == Some(&id) => format!(" [reached as the referent of reference object id {}]", p.id),
                _ => String::new(),
            };
            if !mm::is_in_mmtk_spaces(oref(a)) {
                w.err(format!("object id {} at {:#x} is not in any MMTk space{}", id, a, via_note));
                return;
            }
            // with VO bits every reachable object must still be a valid object for MMTk: catches objects
            // whose memory was reclaimed (VO bit cleared, pages released) but not yet overwritten
            #[cfg(feature = "vo_bit")]
            {
                if std::env::var("VH_NO_VOCHECK").is_err() && mm::is_mmtk_object(addr(a)).map(|r| r.to_raw_address().as_usize()) != Some(a) {
                    w.err(format!("object id {} at {:#x} (space {}) is reachable but is_mmtk_object does not accept it (its memory was reclaimed?){}{}", id, a, mmtk::verif::space_name_of(addr(a)), via_note, path_note));
                    return;
                }
            }
            let raw = self.raw(a);
            if raw.id() != id || raw.size() != o.size || raw.nrefs() != o.nrefs || raw.kind() != o.kind {
                w.err(format!("object id {} at {:#x}: header reads id={} size={} nrefs={} kind={}, expected size={} nrefs={} kind={}{}", id, a, raw.id(), raw.size(), raw.nrefs(), raw.kind(), o.size, o.nrefs, o.kind, via_note));
                return;
            }
            if (a - self.ro + o.offset) % o.align != 0 {
                // not part of any listed property (compacting plans slide objects by words): observation only
                w.align_lost += 1;
            }
            // payload
            let ps = raw.payload_start();
            let n = raw.start + o.size - ps;
            let p = unsafe { std::slice::from_raw_parts(ps as *const u8, n) };
            for (i, b) in p.iter().enumerate() {
                if *b != payload_byte(id, i) {
                    w.err(format!("object id {} at {:#x}: payload byte {} is {:#x}, expected {:#x}", id, a, i, b, payload_byte(id, i)));
                    return;
                }
            }
            let is_ref = matches!(o.kind, KIND_SOFT | KIND_WEAK | KIND_PHANTOM);
            w.cur_holder = id;
            for i in 0..o.nrefs {
                let v = raw.slot(i);
                let fid = o.fields[i];
                if is_ref && i == 0 {
                    if v == 0 {
                        if fid != 0 {
                            w.cleared.push((id, fid));
                        }
                    } else {
                        if fid == 0 {
                            w.err(format!("reference object id {} at {:#x}: referent slot holds {:#x} but the shadow heap says cleared", id, a, v));
                            return;
                        }
                        w.retained.push((id, fid));
                        w.weak_edges.push((fid, v, id));
                    }
                } else {
                    let via = format!("slot {} of object id {}", i, id);
                    self.walk_from(w, fid, v, &via);
                }
            }
        }
    }

    fn strong_closure(&self, starts: &[u64], extra_soft: bool) -> HashSet<u64> {
        let mut seen: HashSet<u64> = HashSet::new();
        let mut stack: Vec<u64> = starts.iter().copied().filter(|x| *x != 0).collect();
        while let Some(id) = stack.pop() {
            if !seen.insert(id) {
                continue;
            }
            if let Some(o) = self.objs.get(&id) {
                let is_ref = matches!(o.kind, KIND_SOFT | KIND_WEAK | KIND_PHANTOM);
                for (i, f) in o.fields.iter().enumerate() {
                    if *f == 0 {
                        continue;
                    }
                    if is_ref && i == 0 {
                        if extra_soft && o.kind == KIND_SOFT && (self.ref_registered.contains_key(&id) || self.ref_maybe_dropped.contains(&id)) {
                            stack.push(*f);
                        }
                        continue;
                    }
                    stack.push(*f);
                }
            }
        }
        seen
    }

    fn root_ids(&self) -> Vec<u64> {
        let mut v = vec![];
        for m in 0..MAX_MUTATORS {
            if self.bound[m] {
                v.extend(self.roots[m].iter().copied());
            }
        }
        v.extend(self.groots.iter().copied());
        v
    }

    /// Called by ops that may trigger a GC: publish the addresses to probe with is_reachable().
    fn prepare_probes(&mut self) {
        let mut w = g().weak.lock().unwrap();
        w.probe_addrs = self.objs.values().filter(|o| o.state == State::Live).map(|o| o.addr).collect();
        w.probed = false;
    }

    fn apply_partial_walk(&mut self, w: &Walk) {
        for (id, a) in &w.new_addr {
            if let Some(o) = self.objs.get_mut(id) {
                if o.addr != *a {
                    self.addr2id.remove(&o.addr);
                }
                o.addr = *a;
                o.state = State::Live;
                self.addr2id.insert(*a, *id);
                let start = *a - self.ro;
                self.intervals.insert(start, (start + o.size, *id));
            }
        }
    }

    fn verify_after_gc(&mut self, n_pauses: u64) {
        cnt!(self, "gc", n_pauses);
        if std::env::var("VH_TRACE").is_ok() {
            eprintln!("verify after pause(s) n={} total={}", n_pauses, self.gcs_seen);
        }
        let gl = g();
        let nursery = mmtk::verif::last_gc_was_nursery(self.mmtk);
        let full_heap = nursery != Some(true);
        if nursery == Some(true) {
            cnt!(self, "gc_nursery");
        }
        let concurrent = self.case.plan == "ConcurrentImmix";
        let exhaustive = self.pending_exhaustive && full_heap && !concurrent && n_pauses == 1;

        // --- model sets on the pre-GC shadow graph
        let roots = self.root_ids();
        // emergency collections do not retain softly reachable referents (reference_processor.rs)
        let emergency = gl.emergency_seen.swap(false, Ordering::SeqCst);
        if emergency {
            cnt!(self, "gc_emergency");
        }
        // Soft references (reference_processor.rs, `retain`): one pass over the table retains the referent
        // of every soft reference that is *already* live, i.e. strongly reachable (R0) - or marked a moment
        // earlier in the same pass as the direct referent of another soft reference (table order is
        // arbitrary).  Soft references that only become reachable through retained referents are scanned
        // after the closure without retention.  MMTk's retained set M therefore lies between
        //   r1_min = closure(roots + referents of soft references in R0)            (strong edges only) and
        //   r1_max = closure following soft referents transitively;
        // the safety direction is asserted against the lower bound, completeness against the upper bound.
        let r0 = self.strong_closure(&roots, false);
        let (r1_min, r1_max) = if emergency {
            (r0.clone(), r0.clone())
        } else {
            let mut starts = roots.clone();
            for id in r0.iter() {
                if let Some(o) = self.objs.get(id) {
                    if o.kind == KIND_SOFT && self.ref_registered.contains_key(id) && o.fields[0] != 0 {
                        starts.push(o.fields[0]);
                    }
                }
            }
            // a registered soft reference object that lives in the immortal space is "live" for the
            // reference processor whether or not it is reachable (ImmortalSpace::is_live is always true), so
            // its referent is retained, too (the reference object itself is not traced)
            let mut max_starts = roots.clone();
            for (id, kind) in self.ref_registered.iter() {
                if *kind == KIND_SOFT && self.immortal_ids.contains(id) {
                    if let Some(o) = self.objs.get(id) {
                        if o.fields[0] != 0 {
                            starts.push(o.fields[0]);
                            max_starts.push(o.fields[0]);
                        }
                    }
                }
            }
            (self.strong_closure(&starts, false), self.strong_closure(&max_starts, true))
        };
        // finalizable objects are kept with their strong closure whether they are still candidates or ready
        let fin_closure = self.strong_closure(&self.fin_registered.clone(), false);
        let r2_min: HashSet<u64> = r1_min.union(&fin_closure).copied().collect();
        let r2_max: HashSet<u64> = r1_max.union(&fin_closure).copied().collect();
        let fin_unreach: Vec<u64> = self.fin_registered.iter().copied().filter(|id| !r1_min.contains(id)).collect();
        let fin_unreach_must: Vec<u64> = self.fin_registered.iter().copied().filter(|id| !r1_max.contains(id)).collect();

        if let Ok(wl) = std::env::var("VH_WATCH") {
            for id in wl.split(',').filter_map(|x| x.parse::<u64>().ok()) {
                let o = self.objs.get(&id);
                eprintln!("  watch id {} before verify of GC #{}: strong={} r1={} r2={} emergency={} known={} addr={:#x} fields={:?} kind={:?}", id, self.gcs_seen, r0.contains(&id), r1_min.contains(&id), r2_min.contains(&id), emergency, o.is_some(), o.map(|o| o.addr).unwrap_or(0), o.map(|o| o.fields.clone()), o.map(|o| o.kind));
            }
        }
        // --- the walk
        let mut w = Walk::default();
        for m in 0..MAX_MUTATORS {
            if !self.bound[m] {
                continue;
            }
            for r in 0..ROOTS_PER_MUTATOR {
                let id = self.roots[m][r];
                let a = self.root_addr(m, r);
                let via = format!("root {} of mutator {}", r, m);
                self.walk_from(&mut w, id, a, &via);
            }
        }
        for gi in 0..GLOBAL_ROOTS {
            let a = gl.global_roots[gi].load(Ordering::Relaxed);
            let id = self.groots[gi];
            let via = format!("global root {}", gi);
            self.walk_from(&mut w, id, a, &via);
        }
        self.walk_drain(&mut w);
        let strong_visited: HashSet<u64> = w.new_addr.keys().copied().collect();
        // ephemeron table: entries kept by the binding
        let (eph_now, dropped): (Vec<(usize, usize, u64, u64)>, Vec<(u64, u64)>) = {
            let mut ws = gl.weak.lock().unwrap();
            (ws.ephemerons.iter().map(|e| (e.key, e.value, e.key_id, e.value_id)).collect(), std::mem::take(&mut ws.dropped))
        };
        if w.error.is_none() {
            w.cur_holder = 0;
            for (ka, va, kid, vid) in &eph_now {
                self.walk_from(&mut w, *kid, *ka, "ephemeron key");
                self.walk_from(&mut w, *vid, *va, "ephemeron value");
            }
            self.walk_drain(&mut w);
        }
        // weak edges that were not cleared: the referent must be the right object
        let mut guard = 0;
        while w.error.is_none() && !w.weak_edges.is_empty() && guard < 10000 {
            guard += 1;
            let edges = std::mem::take(&mut w.weak_edges);
            for (fid, v, rid) in edges {
                let via = format!("referent of reference object id {}", rid);
                w.cur_holder = rid;
                self.walk_from(&mut w, fid, v, &via);
            }
            self.walk_drain(&mut w);
        }
        if let Some(e) = w.error.take() {
            let prop = if e.contains("referent") || e.contains("reference object") { "C06" } else if e.contains("ephemeron") { "C13" } else { "C01" };
            // Known finding (C01): the Compressor does not update references held by objects of the immortal
            // and non-moving spaces.  The signature is structural: plan + space of the object holding the
            // stale slot, so any other graph mismatch keeps the generic signature and is reported.
            let holder_space = w.err_holder.and_then(|h| self.objs.get(&h)).map(|o| o.space).unwrap_or("");
            let sig = if prop == "C01" && self.case.plan == "Compressor" && matches!(holder_space, "immortal" | "nonmoving") {
                "compressor-stale-ref-from-immortal-or-nonmoving"
            } else if self.case.plan == "ConcurrentImmix" && variant(V).layout == Layout::HeaderHeavy && cv_counter(&self.verdict, "pause_started_concurrent_marking") > 0 {
                // known finding C12: with the log bit in the header the SATB barrier never fires
                "concurrent-immix-header-log-bit-no-satb"
            } else if prop == "C06" && e.contains("reached as the referent") {
                "retained-referent-reclaimed"
            } else {
                "graph-mismatch"
            };
            self.violate(prop, sig, format!("after GC #{} ({}): {}", self.gcs_seen, if full_heap { "full" } else { "nursery" }, e));
            return;
        }

        // --- copy log: no object copied twice in one GC
        {
            let copies = std::mem::take(&mut *gl.copies.lock().unwrap());
            let mut from_seen: HashSet<usize> = HashSet::new();
            if n_pauses == 1 {
                for (f, _t) in &copies {
                    if !from_seen.insert(*f) {
                        self.violate("C17", "copied-twice", format!("object at {:#x} was copied twice in GC #{}", f, self.gcs_seen));
                        return;
                    }
                }
            }
            cnt!(self, "copies", copies.len());
        }

        // --- C06 safety/completeness for reference objects
        // A reference object that is itself dead when its table is scanned is dropped from the table and
        // has its referent slot cleared without being enqueued (reference_processor.rs, process_reference:
        // "If the reference is dead, we're done with it").  It can still survive the GC when a finalizable
        // object resurrects it afterwards.  From then on nothing is asserted about it.
        {
            let dropped: Vec<u64> = self
                .ref_registered
                .iter()
                .filter(|(rid, _)| !self.immortal_ids.contains(rid))
                .filter(|(rid, kind)| if **kind == KIND_PHANTOM { !r2_min.contains(rid) } else { !r1_min.contains(rid) })
                .map(|(rid, _)| *rid)
                .collect();
            for rid in dropped {
                self.ref_registered.remove(&rid);
                self.ref_maybe_dropped.insert(rid);
            }
        }
        for (rid, fid) in &w.cleared {
            if self.ref_maybe_dropped.contains(rid) {
                cnt!(self, "ref_dead_reference_resurrected_found_cleared");
                continue;
            }
            let kind = self.objs[rid].kind;
            let retained_set = match kind {
                KIND_SOFT => &r1_min,
                KIND_WEAK => &r1_min,
                _ => &r2_min,
            };
            if self.ref_registered.contains_key(rid) && retained_set.contains(fid) {
                self.violate("C06", "cleared-reachable-referent", format!("GC #{}: reference object id {} (kind {}) had its referent id {} cleared although the referent was still reachable", self.gcs_seen, rid, kind, fid));
                return;
            }
            if !self.ref_registered.contains_key(rid) {
                self.violate("C06", "cleared-unregistered", format!("GC #{}: unregistered reference object id {} had its referent cleared", self.gcs_seen, rid));
                return;
            }
            cnt!(self, "ref_cleared");
        }
        if exhaustive {
            for (rid, fid) in &w.retained {
                let kind = self.objs[rid].kind;
                let must_clear = match kind {
                    KIND_SOFT => emergency && !r1_max.contains(fid), // otherwise clearing a soft reference is never mandatory
                    KIND_WEAK => !r1_max.contains(fid),
                    _ => !r2_max.contains(fid),
                };
                // Known finding (C06): reference processing decides by `ObjectReference::is_live`, which
                // ImmortalSpace answers with `true` for every object: a reference whose referent lives in the
                // immortal space is never cleared, although the referent is not traced either (its own
                // referents die: dangling fields, and a panic in MarkCompact's forwarding pass).
                if must_clear && self.immortal_ids.contains(fid) && self.ref_registered.contains_key(rid) {
                    self.violate("C06", "weakref-to-unreachable-immortal-not-cleared", format!("exhaustive GC #{}: reference object id {} (kind {}) kept its referent id {} in the immortal space, which was not otherwise reachable (and was not traced)", self.gcs_seen, rid, kind, fid));
                    return;
                }
                if must_clear && self.ref_registered.contains_key(rid) {
                    self.violate("C06", "unreachable-referent-not-cleared", format!("exhaustive GC #{}: reference object id {} (kind {}) kept referent id {} which was not otherwise reachable", self.gcs_seen, rid, kind, fid));
                    return;
                }
            }
        }
        for (rid, _fid) in &w.retained {
            if strong_visited.contains(rid) && w.new_addr.get(rid) != self.objs.get(rid).map(|o| &o.addr) {
                cnt!(self, "ref_retained_moved");
            }
            cnt!(self, "ref_retained");
        }
        // enqueue_references: each at most once, only with cleared referent
        {
            let enq = std::mem::take(&mut gl.weak.lock().unwrap().enqueued);
            for (ra, referent) in enq {
                let id = self.raw(ra).id();
                if referent != 0 {
                    self.violate("C06", "enqueued-uncleared", format!("enqueue_references received reference id {} with referent {:#x} not cleared", id, referent));
                    return;
                }
                if !self.ref_enqueued.insert(id) {
                    self.violate("C06", "enqueued-twice", format!("reference object id {} was handed to enqueue_references twice", id));
                    return;
                }
                cnt!(self, "ref_enqueued");
            }
            if exhaustive {
                for (rid, _fid) in &w.cleared {
                    if !self.ref_enqueued.contains(rid) && !self.ref_maybe_dropped.contains(rid) {
                        self.violate("C06", "cleared-not-enqueued", format!("exhaustive GC #{}: reference id {} was cleared but never enqueued", self.gcs_seen, rid));
                        return;
                    }
                }
            }
        }

        // --- finalizers
        for id in &fin_unreach {
            if !self.fin_maybe_ready.contains(id) || self.fin_maybe_ready.iter().filter(|x| *x == id).count() < self.fin_registered.iter().filter(|x| *x == id).count() {
                self.fin_maybe_ready.push(*id);
            }
        }
        // Completeness: MMTk re-evaluates ready-but-unpopped objects at every GC (they are appended back
        // to the candidates), so an object that became reachable again (e.g. through a popped object)
        // legitimately leaves the ready queue.  After an exhaustive full-heap GC the ready queue must hold
        // exactly the outstanding registrations of objects outside R1 (immortal objects are always "live").
        // A nursery GC re-evaluates them with the generational approximation of liveness (every mature
        // object counts as live), which legitimately moves a ready object back to the candidates until
        // the next full-heap GC: the expectation only holds until the next collection of any kind.
        self.fin_must_ready.clear();
        if exhaustive {
            self.fin_must_ready = fin_unreach_must.clone();
        }

        // --- C13 accounting
        {
            let mut ws = gl.weak.lock().unwrap();
            let rounds = ws.rounds_this_gc;
            let rets = std::mem::take(&mut ws.rets_this_gc);
            let fwd = ws.forward_calls_this_gc;
            let fwd_ok = ws.forward_after_process;
            let post = ws.post_forwarding_this_gc;
            let closure_violation = ws.closure_violation.take();
            let probe_addrs = std::mem::take(&mut ws.probe_addrs);
            let probe_res = std::mem::take(&mut ws.probe_reachable);
            let probed = ws.probed;
            ws.rounds_this_gc = 0;
            ws.forward_calls_this_gc = 0;
            ws.forward_after_process = true;
            ws.post_forwarding_this_gc = 0;
            ws.probed = false;
            ws.traced_last_round.clear();
            drop(ws);
            if let Some(v) = closure_violation {
                self.violate("C13", "closure-incomplete", v);
                return;
            }
            if n_pauses == 1 {
                for (i, r) in rets.iter().enumerate() {
                    let last = i + 1 == rets.len();
                    if *r && last {
                        self.violate("C13", "no-further-round", format!("GC #{}: process_weak_refs returned true in round {} but was not called again", self.gcs_seen, i + 1));
                        return;
                    }
                    if !*r && !last {
                        self.violate("C13", "round-after-false", format!("GC #{}: process_weak_refs was called again after returning false in round {}", self.gcs_seen, i + 1));
                        return;
                    }
                }
                if rounds >= 3 {
                    cnt!(self, "weak_rounds_ge3");
                }
                cnt!(self, "weak_rounds", rounds);
                let needs_fwd = self.mmtk.get_plan().constraints().needs_forward_after_liveness;
                if rounds > 0 {
                    if needs_fwd && fwd != 1 {
                        self.violate("C13", "forward-count", format!("GC #{}: plan needs forwarding after liveness but forward_weak_refs was called {} times", self.gcs_seen, fwd));
                        return;
                    }
                    if !needs_fwd && fwd != 0 {
                        self.violate("C13", "forward-count", format!("GC #{}: forward_weak_refs called {} times for a plan that does not need it", self.gcs_seen, fwd));
                        return;
                    }
                    if !fwd_ok {
                        self.violate("C13", "forward-before-process", format!("GC #{}: process_weak_refs was called after forward_weak_refs", self.gcs_seen));
                        return;
                    }
                    // Collection::post_forwarding is not part of C13 (and ConcurrentImmix's final pause never
                    // schedules VMPostForwarding): counted as an observation only.
                    if post != 1 {
                        cnt!(self, "obs_post_forwarding_not_called_once");
                    }
                }
                // at the first call everything strongly reachable (and the soft/finalizer closure) must be reachable
                if probed && probe_addrs.len() == probe_res.len() {
                    for (a, ok) in probe_addrs.iter().zip(probe_res.iter()) {
                        if let Some(id) = self.addr2id_pre(*a) {
                            // `is_reachable` is the observable for "the strong closure is complete".  In a
                            // nursery GC of GenCopy/GenImmix objects of the immortal space are neither traced nor
                            // treated as mature by ImmortalSpace::is_reachable (it reads the mark bit the nursery
                            // GC's prepare just reset), so the observable is not sound for them there; this says
                            // nothing about *when* process_weak_refs was called (DESIGN.md section 7, item 14).
                            if !full_heap && self.immortal_ids.contains(&id) {
                                cnt!(self, "c13_abstain_immortal_in_nursery_gc");
                                continue;
                            }
                            if r2_min.contains(&id) && !*ok {
                                self.violate("C13", "weak-before-closure", format!("GC #{}: at the first process_weak_refs call object id {} (reachable) reported is_reachable() == false", self.gcs_seen, id));
                                return;
                            }
                        }
                    }
                    cnt!(self, "weak_probe_checked", probe_addrs.len());
                }
            }
            // ephemeron model: entries with reachable keys must be kept
            let kept: HashSet<(u64, u64)> = eph_now.iter().map(|e| (e.2, e.3)).collect();
            for (kid, vid) in self.eph_model.clone() {
                if r2_min.contains(&kid) && !kept.contains(&(kid, vid)) {
                    self.violate("C13", "ephemeron-lost", format!("GC #{}: ephemeron (key id {}, value id {}) dropped although the key was reachable", self.gcs_seen, kid, vid));
                    return;
                }
            }
            let _ = dropped;
            self.eph_model = kept.into_iter().collect();
        }

        // --- C04 + bookkeeping: update addresses
        let mut moved = 0u64;
        let mut new_intervals: BTreeMap<usize, (usize, u64)> = BTreeMap::new();
        let mut new_addr2id = HashMap::new();
        let visited: HashSet<u64> = w.new_addr.keys().copied().collect();
        let mut pinned_targets: HashSet<u64> = HashSet::new();
        let mut tpinned_roots: Vec<u64> = vec![];
        for m in 0..MAX_MUTATORS {
            for r in 0..ROOTS_PER_MUTATOR {
                match self.root_kind[m][r] {
                    1 => {
                        pinned_targets.insert(self.roots[m][r]);
                    }
                    2 => {
                        tpinned_roots.push(self.roots[m][r]);
                    }
                    _ => {}
                }
            }
        }
        let tpinned = self.strong_closure(&tpinned_roots, false);
        let mut c04_nontrivial = false;
        for (id, a) in &w.new_addr {
            let o = self.objs.get(id).unwrap();
            // C04 as stated covers Immortal / Los / NonMoving semantics and objects pinned with pin_object.
            // Pinning and transitively pinning *roots* are not part of the statement: a moved member of
            // their closure is only counted (observation 18 of DESIGN.md section 7: in a StickyImmix nursery
            // GC a young object reachable from a transitively pinning root only through an *old* object is
            // reached via the remembered set and copied).
            let must_stay = o.pinned || matches!(o.sem, 1 | 2 | 6) || self.is_nogc;
            if o.addr != *a && !must_stay {
                if pinned_targets.contains(id) {
                    cnt!(self, "obs_pinning_root_target_moved");
                } else if tpinned.contains(id) {
                    cnt!(self, "obs_tpinned_closure_member_moved");
                }
            }
            if o.addr != *a {
                moved += 1;
                if must_stay {
                    let why = if o.pinned { "pinned" } else if pinned_targets.contains(id) { "pinning root" } else if tpinned.contains(id) { "transitively pinned" } else { "non-moving semantics" };
                    self.violate("C04", "moved", format!("GC #{}: object id {} ({}; semantics {}; space {}) moved from {:#x} to {:#x}", self.gcs_seen, id, why, o.sem, o.space, o.addr, a));
                    return;
                }
            } else if must_stay {
                c04_nontrivial = true;
            }
        }
        if moved > 0 && c04_nontrivial {
            cnt!(self, "c04_moving_gc_with_fixed_object");
        }
        cnt!(self, "obs_alignment_not_preserved_after_copy", w.align_lost);
        self.moved_since_start += moved;
        cnt!(self, "moved", moved);
        if moved > 0 {
            cnt!(self, "gc_with_move");
        }
        // which unvisited objects are in finalizer limbo?
        let limbo = self.strong_closure(&self.fin_registered.clone(), false);
        let ids: Vec<u64> = self.objs.keys().copied().collect();
        let mut reclaimed = 0u64;
        for id in ids {
            if let Some(a) = w.new_addr.get(&id) {
                let o = self.objs.get_mut(&id).unwrap();
                o.addr = *a;
                o.state = State::Live;
                o.survived += 1;
                o.space = mmtk::verif::space_name_of(addr(*a));
                new_addr2id.insert(*a, id);
                let start = *a - self.ro;
                new_intervals.insert(start, (start + o.size, id));
            } else if limbo.contains(&id) {
                let o = self.objs.get_mut(&id).unwrap();
                o.state = State::Limbo;
            } else if self.immortal_ids.contains(&id) {
                // unreachable but never reclaimed: must stay intact (C04); keep its interval
                let o = self.objs.get_mut(&id).unwrap();
                o.state = State::Limbo;
                let start = o.addr - self.ro;
                new_intervals.insert(start, (start + o.size, id));
            } else {
                let o = self.objs.remove(&id).unwrap();
                if self.dead_addrs.len() < 4096 {
                    self.dead_addrs.push((o.addr, id, o.size));
                }
                reclaimed += 1;
            }
        }
        // cleared referents
        for (rid, _fid) in &w.cleared {
            if let Some(o) = self.objs.get_mut(rid) {
                o.fields[0] = 0;
            }
        }
        cnt!(self, "unreachable_at_gc", reclaimed);
        if reclaimed > 0 {
            cnt!(self, "gc_with_garbage");
        }
        if visited.len() >= 8 {
            cnt!(self, "gc_with_ge8_live");
        }
        self.addr2id = new_addr2id;
        self.intervals = new_intervals;
        self.last_full_exhaustive = exhaustive;

        // --- C04: unreachable immortal objects stay intact
        let imm: Vec<u64> = self.immortal_ids.iter().copied().filter(|id| !visited.contains(id)).collect();
        for id in imm {
            if let Some(o) = self.objs.get(&id) {
                let raw = self.raw(o.addr);
                if raw.id() != id || raw.size() != o.size {
                    self.violate("C04", "immortal-damaged", format!("GC #{}: unreachable immortal object id {} at {:#x} no longer intact (header id={} size={})", self.gcs_seen, id, o.addr, raw.id(), raw.size()));
                    return;
                }
                if o.survived == 0 && self.gcs_seen >= o.alloc_gc + 2 {
                    cnt!(self, "c04_unreachable_immortal_checked");
                }
            }
        }

        let used = mm::used_bytes(self.mmtk);
        self.used_after_gc.push(used);
        // C09: used bytes after an exhaustive GC that found nothing reachable
        // (the shadow heap is completely empty: nothing reachable, nothing retained for finalization,
        // nothing in a never-collected space)
        if exhaustive && self.objs.is_empty() {
            self.used_after_empty_gc.push(used);
        }
        if std::env::var("VH_TRACE").is_ok() {
            let infos: Vec<String> = mmtk::verif::space_infos(self.mmtk).iter().map(|s| format!("{}:r{}c{}", s.name, s.reserved_pages, s.committed_pages)).collect();
            eprintln!("  after GC #{}: used={} total={} nursery={:?} live_objs={} spaces={:?}", self.gcs_seen, used, mm::total_bytes(self.mmtk), nursery, self.objs.len(), infos);
        }
        let total = mm::total_bytes(self.mmtk);
        let free = mm::free_bytes(self.mmtk);
        if free + used > total + 4096 * 64 && self.case.dyn_heap.is_none() && !self.overcommitted {
            // free = total - reserved; must never exceed total
            self.violate("C09", "free-plus-used", format!("GC #{}: free_bytes {} + used_bytes {} exceeds total_bytes {}", self.gcs_seen, free, used, total));
        }
        if self.case.plan.contains("Immix") || true {
            self.check_immix_lines();
        }
        if self.concurrent_marking_active() {
            cnt!(self, "pause_started_concurrent_marking");
        }
        if exhaustive {
            cnt!(self, "gc_exhaustive_full");
            self.post_exhaustive_checks(&visited);
        }
    }

    /// C34: the hole search never yields a line overlapped by a live object.
    fn check_immix_lines(&mut self) {
        if self.concurrent_marking_active() {
            // an initial-mark pause has not marked anything yet
            return;
        }
        let views = mmtk::verif::immix_views(self.mmtk);
        if views.is_empty() {
            return;
        }
        const LINE: usize = 256;
        for v in &views {
            // live lines of this space
            let mut live: std::collections::BTreeMap<usize, u64> = Default::default();
            let mut big = 0;
            for o in self.objs.values() {
                if o.state == State::Live && o.space == v.name {
                    let s = (o.addr - self.ro) & !(LINE - 1);
                    let e = (o.addr - self.ro + o.size - 1) & !(LINE - 1);
                    let mut l = s;
                    while l <= e {
                        live.insert(l, o.id);
                        l += LINE;
                    }
                    if (e - s) / LINE + 1 >= 3 {
                        big += 1;
                    }
                }
            }
            let mut holes = 0;
            for b in &v.blocks {
                for (hs, he) in &b.holes {
                    holes += 1;
                    if let Some((l, id)) = live.range(hs.as_usize()..he.as_usize()).next() {
                        let idx = (*l - b.start.as_usize()) / LINE;
                        let d = format!("GC #{}: space {}: hole [{:#x},{:#x}) returned by get_next_available_lines contains line {:#x} of live object id {} (line mark {}, current state {}, unavail state {}, block state byte {})", self.gcs_seen, v.name, hs.as_usize(), he.as_usize(), l, id, b.line_marks.get(idx).copied().unwrap_or(0), v.line_mark_state, v.line_unavail_state, b.state_byte);
                        self.violate("C34", "live-line-in-hole", d);
                        return;
                    }
                }
            }
            cnt!(self, "c34_spaces_checked");
            cnt!(self, "c34_holes_checked", holes);
            if big > 0 && holes > 0 {
                cnt!(self, "c34_straddling_object_next_to_holes");
            }
        }
    }

    fn addr2id_pre(&self, a: usize) -> Option<u64> {
        self.addr2id.get(&a).copied()
    }

    // ------------------------------------------------------------ stubs filled by later modules

    fn post_exhaustive_checks(&mut self, visited: &HashSet<u64>) {
        super::probes::post_exhaustive(self, visited);
    }

    fn probe(&mut self, kind: u8, seed: u32) {
        super::probes::probe(self, kind, seed);
    }

    fn alloc_with_options(&mut self, m: usize, r: usize, size_class: u8, sem: u8, overcommit: bool, at_safepoint: bool, allow_oom: bool) {
        let vd = variant(V);
        let heap_bytes = match self.case.dyn_heap {
            Some((_, max)) => max as usize * 1024,
            None => (self.case.heap_kb as usize) * 1024,
        };
        let size: usize = match size_class % 8 {
            0 => 64,
            1 => 4096,
            2 => 32 * 1024,
            3 => 256 * 1024,
            4 => heap_bytes / 2,
            5 => heap_bytes + 4096,
            6 => 1usize << 40,
            _ => usize::MAX & !7,
        };
        let mut sem = sem_of(sem);
        if matches!(mm::get_allocator_mapping(self.mmtk, sem), mmtk::util::alloc::AllocatorSelector::None) {
            sem = AllocationSemantics::Default;
        }
        sem = self.steer_semantics(sem);
        if matches!(sem, AllocationSemantics::Default) && size > self.max_non_los {
            sem = AllocationSemantics::Los;
        }
        if !matches!(sem, AllocationSemantics::Default | AllocationSemantics::Los) {
            if size > 8192 {
                sem = AllocationSemantics::Los;
            }
        }
        // Over-committed memory is never given back while reachable, and the virtual extent reserved for a
        // space is only 2 x heap: bound the over-committed volume (DESIGN.md: C10 domain), counting the rest.
        let mut overcommit = overcommit;
        // With the pseudo option `__overcommit_unbounded`, requests that may not wait for a GC
        // (`at_safepoint: false`) are exempt: when the space's address range runs out they must simply fail.
        let unbounded = !at_safepoint && size <= heap_bytes && self.case.opts.iter().any(|(k, _)| k == "__overcommit_unbounded");
        if unbounded && overcommit {
            cnt!(self, "overcommit_unbounded_attempt");
        }
        if overcommit && !unbounded && self.overcommitted_bytes + size.min(heap_bytes) > heap_bytes / 4 {
            overcommit = false;
            cnt!(self, "steered_overcommit_volume");
        }
        let opts = AllocationOptions { allow_overcommit: overcommit, at_safepoint, allow_oom_call: allow_oom };
        let gl = g();
        let oom0 = gl.oom_calls.load(Ordering::SeqCst);
        let blk0 = gl.block_calls.load(Ordering::SeqCst);
        let gc0 = gl.resume_calls.load(Ordering::SeqCst);
        // C10 (R6, "the call returns"): a watchdog thread reports a call that makes no callback progress
        let desc = format!("alloc_with_options(size={}, {:?}, overcommit={}, at_safepoint={}, allow_oom_call={})", size, sem, overcommit, at_safepoint, allow_oom);
        *gl.alloc_call_desc.lock().unwrap() = desc.clone();
        self.alloc_call_seq += 1;
        gl.in_alloc_call.store((self.alloc_call_seq << 1) | 1, Ordering::SeqCst);
        let a = mm::alloc_with_options(self.mutator(m), size, vd.min_align, 0, sem, opts);
        gl.in_alloc_call.store(0, Ordering::SeqCst);
        if overcommit && !a.is_zero() {
            self.overcommitted = true;
            self.overcommitted_bytes += size;
        }
        let oom1 = gl.oom_calls.load(Ordering::SeqCst);
        let blk1 = gl.block_calls.load(Ordering::SeqCst);
        let gc1 = gl.resume_calls.load(Ordering::SeqCst);
        self.after_possible_gc();
        cnt!(self, "alloc_opts");
        if !allow_oom && oom1 != oom0 {
            self.violate("C10", "oom-call-disallowed", format!("{}: out_of_memory was called although allow_oom_call is false", desc));
            return;
        }
        if !at_safepoint && blk1 != blk0 {
            self.violate("C10", "blocked-not-at-safepoint", format!("{}: block_for_gc was called although at_safepoint is false", desc));
            return;
        }
        if oom1 != oom0 {
            cnt!(self, "oom_called");
            if !a.is_zero() {
                self.violate("C10", "oom-nonnull", format!("{}: out_of_memory was called but the result {:#x} is not null", desc, a.as_usize()));
                return;
            }
            let max_heap = match self.case.dyn_heap {
                Some((_, max)) => max as usize * 1024,
                None => heap_bytes,
            };
            let obviously = size > max_heap;
            if !obviously && gc1 == gc0 {
                self.violate("C10", "oom-before-gc", format!("{}: out_of_memory was called without a collection being attempted first (request fits in the max heap {})", desc, max_heap));
                return;
            }
            if obviously {
                cnt!(self, "oom_obvious");
            }
        }
        if a.is_zero() {
            cnt!(self, "alloc_opts_null");
            return;
        }
        if size > (1 << 30) {
            self.violate("C10", "huge-alloc-succeeded", format!("{}: returned {:#x} for a request far beyond the heap", desc, a.as_usize()));
            return;
        }
        if !self.check_alloc_result(m, a, size, vd.min_align, 0, sem) {
            return;
        }
        let semc = match sem {
            AllocationSemantics::Default => 0,
            AllocationSemantics::Los => 2,
            _ => 2,
        };
        let id = self.init_object(m, a, size, 0, KIND_PLAIN, sem, vd.min_align, 0, semc);
        let ra = self.objs[&id].addr;
        self.set_root(m, r, id, ra);
    }

    fn fork_cycle(&mut self) {
        super::probes::fork_cycle(self);
    }

    fn finish(&mut self) {
        super::probes::finish(self);
    }
}

pub fn pin_supported(space: &str) -> bool {
    matches!(space, "immix" | "nonmoving" | "immortal" | "los" | "ms" | "marksweep" | "mallocspace")
}

#[derive(Default)]
pub struct Walk {
    pub new_addr: HashMap<u64, usize>,
    pub seen_addr: HashMap<usize, u64>,
    pub queue: Vec<(u64, usize)>,
    pub error: Option<String>,
    /// (reference id, referent id) whose slot was found cleared
    pub cleared: Vec<(u64, u64)>,
    pub retained: Vec<(u64, u64)>,
    /// (referent id, address in slot, reference id)
    pub weak_edges: Vec<(u64, usize, u64)>,
    pub align_lost: u64,
    /// id of the object whose slots are being compared (0 = a root), and its value at the first error
    pub cur_holder: u64,
    pub err_holder: Option<u64>,
    /// object id -> id of the object through whose slot it was first reached (0 = a root)
    pub parent: HashMap<u64, u64>,
}

impl Walk {
    pub fn err(&mut self, e: String) {
        if self.error.is_none() {
            self.error = Some(e);
            self.err_holder = Some(self.cur_holder);
        }
    }
}
