//! Whole-system (E1) property checks: generated cases run in `shadowvm` subprocesses.

use super::Entry;
use crate::e1::*;
use crate::gen::{self, Mix};
use crate::runner::{Check, Outcome};
use crate::shadow::case::*;

const TIMEOUT_S: u64 = 120;

fn known_fn(_c: &Check) -> impl Fn(&str, &str) -> bool + Sync + 'static {
    let known: Vec<(String, String)> = crate::runner::load_known_findings().into_iter().filter(|k| k.status == "known").map(|k| (k.property, k.signature)).collect();
    move |p: &str, s: &str| known.iter().any(|(kp, ks)| kp == p && ks == s)
}

fn run_e1(c: &mut Check, section: &str, cases: u64, property: &'static str, also: &'static [&'static str], strat: fn() -> proptest::strategy::BoxedStrategy<Case>, nt: fn(&Verdict) -> (bool, Vec<&'static str>)) {
    let is_known = known_fn(c);
    let threads = c.threads;
    c.shrink_iters = 150;
    replay_saved_inputs(c, property, also, nt);
    c.section_threads(section, cases, threads, strat, move |case: &Case, _env| {
        let res = run_case(case, TIMEOUT_S);
        outcome_for(property, also, res, &is_known, &nt)
    });
}

pub fn entries() -> Vec<Entry> {
    vec![
        Entry { id: "C01", rule: "cases = generated mutator programs x plan x layout variant x workers x options, each run in its own process against real MMTk with a lock-step shadow-heap walk after every pause; non-trivial = >=1 GC with >=8 reachable objects and (>=1 object moved or >=1 unreachable object at GC time) and >=1 cross-space edge; distinct by structural hash of the case", run: c01 },
    ]
}

fn c01(c: &mut Check) {
    let n = c.tier.pick(1600, 60000);
    run_e1(c, "all-plans", n, "C01", &["C17"], || gen::case(&PLANS, Mix::BASIC, "C01", 120), |v| {
        let nt = cv(v, "gc") >= 1 && cv(v, "gc_with_ge8_live") >= 1 && (cv(v, "moved") > 0 || cv(v, "unreachable_at_gc") > 0) && cv(v, "cross_space_edge") > 0;
        let mut l = vec![];
        if cv(v, "gc") > 0 {
            l.push("has_gc");
        }
        if cv(v, "moved") > 0 {
            l.push("moved");
        }
        if cv(v, "gc_nursery") > 0 {
            l.push("nursery_gc");
        }
        if cv(v, "cross_space_edge") > 0 {
            l.push("cross_space_edge");
        }
        if cv(v, "alloc_null") > 0 {
            l.push("alloc_null");
        }
        (nt, l)
    });
}

/// Replay the saved inputs of this property: every file under corpus/<ID>/ (regression inputs of
/// fixed findings must pass; inputs of listed known findings must still show that finding).
fn replay_saved_inputs(c: &mut Check, property: &'static str, also: &'static [&'static str], nt: fn(&Verdict) -> (bool, Vec<&'static str>)) {
    if c.replay.is_some() {
        return;
    }
    let is_known = known_fn(c);
    let dir = format!("{}/corpus/{}", crate::runner::VERIF_DIR, property);
    let mut files: Vec<std::path::PathBuf> = match std::fs::read_dir(&dir) {
        Ok(rd) => rd.filter_map(|e| e.ok()).map(|e| e.path()).filter(|p| p.extension().map(|x| x == "json").unwrap_or(false)).collect(),
        Err(_) => vec![],
    };
    files.sort();
    let known = c.known_entries();
    for f in files {
        let txt = std::fs::read_to_string(&f).unwrap();
        let v: serde_json::Value = match serde_json::from_str(&txt) {
            Ok(v) => v,
            Err(_) => continue,
        };
        let cv = if v.get("ops").is_some() { v.clone() } else { v["case"].clone() };
        let Ok(case) = serde_json::from_value::<Case>(cv) else { continue };
        let rel = format!("corpus/{}/{}", property, f.file_name().unwrap().to_string_lossy());
        let attempts = known.iter().find(|k| k.replay.as_deref() == Some(rel.as_str())).and_then(|k| k.replay_attempts).unwrap_or(1);
        let mut last = None;
        for _ in 0..attempts {
            let res = run_case(&case, TIMEOUT_S);
            let out = outcome_for_case(Some(&case), property, also, res, &is_known, &nt);
            let stop = !matches!(out, Outcome::Pass { .. });
            last = Some(out);
            if stop {
                break;
            }
        }
        c.record_replay(&rel, last.unwrap(), &f.to_string_lossy());
    }
}

/// C35 (system part): cells of a fresh MarkSweep block, one size class per case.
pub fn c35_system(c: &mut Check) {
    let n = c.tier.pick(150, 3000);
    run_e1_named(c, "fresh-block-cells", n, "C35", &[], || {
        use proptest::prelude::*;
        (0u16..u16::MAX, 0u8..4, 1u8..4)
            .prop_map(|(size, v, workers)| Case { plan: "MarkSweep".into(), variant: v, heap_kb: 65536, dyn_heap: None, workers, mutators: 1, opts: vec![], copy_spin: 0, focus: "C35".into(), ops: vec![Op::MsFill { m: 0, size }] })
            .boxed()
    }, |v| (cv(v, "msfill_checked") > 0, vec![]));
}

fn run_e1_named(c: &mut Check, section: &str, cases: u64, property: &'static str, also: &'static [&'static str], strat: fn() -> proptest::strategy::BoxedStrategy<Case>, nt: fn(&Verdict) -> (bool, Vec<&'static str>)) {
    let is_known = known_fn(c);
    let threads = c.threads;
    c.shrink_iters = 100;
    c.section_threads(section, cases, threads, strat, move |case: &Case, _env| {
        let res = run_case(case, TIMEOUT_S);
        outcome_for(property, also, res, &is_known, &nt)
    });
}
