//! Side metadata properties (no MMTk instance in the process):
//! C20 independent fixed-width fields, C21 bulk zero/set/copy, C22 search/scan, C25 sanity overlap check.

use super::Entry;
use crate::runner::{Check, Env, Outcome};
use crate::{vensure, vfail};
use mmtk::util::metadata::side_metadata::SideMetadataSpec;
use mmtk::util::Address;
use proptest::prelude::*;
use serde::{Deserialize, Serialize};
use std::sync::atomic::Ordering;

pub fn entries() -> Vec<Entry> {
    vec![
        Entry { id: "C20", rule: "cases = side spec (1..64 bits per region, region 1 B..4 MiB with data:meta >= 1, offset from a boundary set) x 3x-window of generated initial field values x history of 1..120 load/store/CAS/fetch-*/update/set_zero ops on random in-region offsets of the middle window; oracle = reference array of integers truncated to the width, compared on the whole window after every op, canary bytes around the metadata range; non-trivial = history touches >= 2 regions sharing a metadata byte and has >= 1 read-modify-write on a non-zero field", run: c20 },
        Entry { id: "C21", rule: "cases = spec as C20 x random pre-filled window x (op in bzero/bset/bcopy, start region, region count) with metadata ranges beginning/ending mid-byte and spanning words/pages; oracle = model array: inside range 0 / all-ones / source value, outside unchanged, canaries; non-trivial = metadata start or end not byte aligned, or range >= 3 metadata bytes", run: c21 },
        Entry { id: "C22", rule: "cases = spec (1,2,4,8 bits for find; any width for scan) x sparse/dense/run-structured contents x (data address at arbitrary unaligned offset, search limit 1..beyond window) / scan range; oracle = region-by-region scan over load_atomic following the documented range semantics (mmtk's own fast-vs-simple debug cross-check is not the oracle; a panic from it counts as a failure); non-trivial = >= 1 set field outside and >= 1 inside the range and the range crosses a metadata word", run: c22 },
        Entry { id: "C25", rule: "cases = sets of 2..6 global or local specs, laid out disjointly by side_metadata_offset_after and then perturbed (shifted into a neighbour, identical offsets, containment) with large offsets; oracle = interval arithmetic on [offset, offset + address range size); verify_metadata_context must panic iff some pair overlaps; non-trivial = the overlapping pair is not the first pair and offsets exceed the smaller spec's range size", run: c25 },
    ]
}

const OFFSETS: [usize; 6] = [0, 8, 0x1000, 0x10_0008, 0x4000_0000, 0x1_2345_6780];
const REGION_LOGS: [u8; 10] = [0, 1, 2, 3, 4, 6, 8, 12, 16, 22];

fn heap_start() -> usize {
    mmtk::memory_manager::starting_heap_address().as_usize()
}

fn addr(a: usize) -> Address {
    unsafe { Address::from_usize(a) }
}

fn width_mask(log_bits: u8) -> u64 {
    let bits = 1u32 << log_bits;
    if bits == 64 {
        u64::MAX
    } else {
        (1u64 << bits) - 1
    }
}

#[derive(Serialize, Deserialize, Clone, Debug)]
struct SpecSel {
    log_bits: u8,
    region_sel: u8,
    global: bool,
    offset_sel: u8,
}

struct Window {
    spec: SideMetadataSpec,
    /// data address of region 0 of the 3x window
    base: usize,
    region: usize,
    /// regions per third
    n: usize,
    meta_lo: usize,
    meta_hi: usize,
}

fn spec_sel() -> impl Strategy<Value = SpecSel> {
    (0u8..7, 0u8..10, any::<bool>(), 0u8..6).prop_map(|(log_bits, region_sel, global, offset_sel)| SpecSel { log_bits, region_sel, global, offset_sel })
}

/// Build and map the window for a spec selection; None = out of domain (counted by the caller).
fn make_window(sel: &SpecSel, thread: usize, max_log_bits: u8) -> Option<Window> {
    mmtk::verif::side_metadata::initialize();
    let log_bits = sel.log_bits.min(max_log_bits);
    let mut log_region = REGION_LOGS[sel.region_sel as usize % REGION_LOGS.len()];
    // data:meta ratio must be >= 1 (more metadata than data is documented as unsupported)
    if (log_region as i32) + 3 < log_bits as i32 {
        log_region = log_bits - 3;
    }
    let n: usize = if log_region <= 12 { 64 } else { 8 };
    let region = 1usize << log_region;
    let spec = SideMetadataSpec { name: "verif", is_global: sel.global, offset: OFFSETS[sel.offset_sel as usize % OFFSETS.len()], log_num_of_bits: log_bits as usize, log_bytes_in_region: log_region as usize };
    let base = heap_start() + (thread + 1) * (4usize << 30);
    let bytes = 3 * n * region;
    let map_bytes = (bytes + 4095) & !4095;
    let (rbase, rbytes) = mmtk::verif::side_metadata::reserved_range();
    let (lo, _) = mmtk::verif::side_metadata::meta_location(&spec, addr(base));
    let (hi, _) = mmtk::verif::side_metadata::meta_location(&spec, addr(base + bytes));
    if hi.as_usize() + 4096 >= rbase.as_usize() + rbytes {
        return None;
    }
    mmtk::verif::side_metadata::map(&[spec], addr(base), map_bytes).ok()?;
    // zero the metadata of the whole 3x window (contents persist between cases)
    let mlo = lo.as_usize();
    let mhi = (hi.as_usize()).max(mlo + 1);
    unsafe { std::ptr::write_bytes(mlo as *mut u8, 0, mhi - mlo) };
    Some(Window { spec, base, region, n, meta_lo: mlo, meta_hi: mhi })
}

macro_rules! sm_dispatch {
    ($log_bits:expr, $m:ident, $($args:tt)*) => {
        match $log_bits {
            0..=3 => $m!(u8, $($args)*),
            4 => $m!(u16, $($args)*),
            5 => $m!(u32, $($args)*),
            _ => $m!(u64, $($args)*),
        }
    };
}

fn load_field(spec: &SideMetadataSpec, a: usize) -> u64 {
    macro_rules! ld {
        ($t:ty, $spec:expr, $a:expr) => {
            $spec.load_atomic::<$t>(addr($a), Ordering::SeqCst) as u64
        };
    }
    sm_dispatch!(spec.log_num_of_bits, ld, spec, a)
}

fn store_field(spec: &SideMetadataSpec, a: usize, v: u64) {
    macro_rules! st {
        ($t:ty, $spec:expr, $a:expr, $v:expr) => {
            $spec.store_atomic::<$t>(addr($a), $v as $t, Ordering::SeqCst)
        };
    }
    sm_dispatch!(spec.log_num_of_bits, st, spec, a, v)
}

fn fill(w: &Window, init: &[u64]) -> Vec<u64> {
    let wm = width_mask(w.spec.log_num_of_bits as u8);
    let mut model = vec![0u64; 3 * w.n];
    for i in 0..3 * w.n {
        let v = init[i % init.len()] & wm;
        store_field(&w.spec, w.base + i * w.region, v);
        model[i] = v;
    }
    model
}

fn compare_all(w: &Window, model: &[u64], when: &str) -> Option<String> {
    for i in 0..3 * w.n {
        let got = load_field(&w.spec, w.base + i * w.region);
        if got != model[i] {
            return Some(format!("{}: field of region {} (middle window = {}..{}) holds {:#x}, model {:#x} [{} bits/region, region {} B, offset {:#x}]", when, i, w.n, 2 * w.n, got, model[i], 1 << w.spec.log_num_of_bits, w.region, w.spec.offset));
        }
    }
    None
}

// ------------------------------------------------------------------ C20

#[derive(Serialize, Deserialize, Clone, Debug)]
enum SOp {
    Load { r: u8, off: u32, atomic: bool },
    Store { r: u8, off: u32, val: u64, atomic: bool },
    Cas { r: u8, off: u32, use_current: bool, stale: u64, new: u64 },
    FetchAdd { r: u8, off: u32, val: u64 },
    FetchSub { r: u8, off: u32, val: u64 },
    FetchAnd { r: u8, off: u32, val: u64 },
    FetchOr { r: u8, off: u32, val: u64 },
    Update { r: u8, off: u32, new: Option<u64> },
    SetZero { r: u8, off: u32, atomic: bool },
}

fn region_pick() -> impl Strategy<Value = u8> {
    // cluster on a few neighbouring regions so that fields share metadata bytes
    prop_oneof![3 => 0u8..8, 1 => any::<u8>()]
}

fn sop() -> impl Strategy<Value = SOp> {
    let ro = || (region_pick(), any::<u32>());
    prop_oneof![
        2 => (ro(), any::<bool>()).prop_map(|((r, off), atomic)| SOp::Load { r, off, atomic }),
        3 => (ro(), any::<u64>(), any::<bool>()).prop_map(|((r, off), val, atomic)| SOp::Store { r, off, val, atomic }),
        3 => (ro(), any::<bool>(), any::<u64>(), any::<u64>()).prop_map(|((r, off), use_current, stale, new)| SOp::Cas { r, off, use_current, stale, new }),
        1 => (ro(), any::<u64>()).prop_map(|((r, off), val)| SOp::FetchAdd { r, off, val }),
        1 => (ro(), any::<u64>()).prop_map(|((r, off), val)| SOp::FetchSub { r, off, val }),
        1 => (ro(), any::<u64>()).prop_map(|((r, off), val)| SOp::FetchAnd { r, off, val }),
        1 => (ro(), any::<u64>()).prop_map(|((r, off), val)| SOp::FetchOr { r, off, val }),
        2 => (ro(), prop::option::of(any::<u64>())).prop_map(|((r, off), new)| SOp::Update { r, off, new }),
        1 => (ro(), any::<bool>()).prop_map(|((r, off), atomic)| SOp::SetZero { r, off, atomic }),
    ]
}

#[derive(Serialize, Deserialize, Clone, Debug)]
struct SmCase {
    sel: SpecSel,
    init: Vec<u64>,
    ops: Vec<SOp>,
}

fn init_values() -> impl Strategy<Value = Vec<u64>> {
    prop::collection::vec(prop_oneof![3 => any::<u64>(), 1 => Just(0u64), 1 => Just(u64::MAX)], 1..40)
}

macro_rules! c20_ops {
    ($t:ty, $w:expr, $case:expr, $model:expr, $rmw_nonzero:expr, $touched:expr) => {{
        let w: &Window = $w;
        let spec = &w.spec;
        let wm = width_mask(spec.log_num_of_bits as u8);
        for (i, op) in $case.ops.iter().enumerate() {
            let (r, off) = match op {
                SOp::Load { r, off, .. } | SOp::Store { r, off, .. } | SOp::Cas { r, off, .. } | SOp::FetchAdd { r, off, .. } | SOp::FetchSub { r, off, .. } | SOp::FetchAnd { r, off, .. } | SOp::FetchOr { r, off, .. } | SOp::Update { r, off, .. } | SOp::SetZero { r, off, .. } => (*r, *off),
            };
            let ri = w.n + (r as usize * w.n >> 8);
            let a = addr(w.base + ri * w.region + (off as usize % w.region));
            let cur = $model[ri];
            $touched.insert(ri);
            match op {
                SOp::Load { atomic, .. } => {
                    let got: $t = if *atomic { spec.load_atomic::<$t>(a, Ordering::SeqCst) } else { unsafe { spec.load::<$t>(a) } };
                    vensure!(got as u64 == cur, "op {}: load({}) = {:#x}, model {:#x}", i, a, got, cur);
                }
                SOp::Store { val, atomic, .. } => {
                    let v = (*val & wm) as $t;
                    if *atomic {
                        spec.store_atomic::<$t>(a, v, Ordering::SeqCst)
                    } else {
                        unsafe { spec.store::<$t>(a, v) }
                    }
                    $model[ri] = v as u64;
                }
                SOp::Cas { use_current, stale, new, .. } => {
                    let old = if *use_current { cur } else { *stale & wm };
                    let newv = *new & wm;
                    let res = spec.compare_exchange_atomic::<$t>(a, old as $t, newv as $t, Ordering::SeqCst, Ordering::SeqCst);
                    match res {
                        Ok(p) => {
                            vensure!(old == cur, "op {}: compare_exchange(old={:#x}) succeeded but the field held {:#x}", i, old, cur);
                            vensure!(p as u64 == cur, "op {}: compare_exchange Ok({:#x}), previous value {:#x}", i, p, cur);
                            $model[ri] = newv;
                            if cur != 0 {
                                $rmw_nonzero = true;
                            }
                        }
                        Err(p) => {
                            vensure!(old != cur, "op {}: compare_exchange(old={:#x}) failed but the field held {:#x}", i, old, cur);
                            vensure!(p as u64 == cur, "op {}: compare_exchange Err({:#x}), current value {:#x}", i, p, cur);
                        }
                    }
                }
                SOp::FetchAdd { val, .. } => {
                    let v = (*val & wm) as $t;
                    let p = spec.fetch_add_atomic::<$t>(a, v, Ordering::SeqCst);
                    vensure!(p as u64 == cur, "op {}: fetch_add returned {:#x}, model {:#x}", i, p, cur);
                    $model[ri] = cur.wrapping_add(v as u64) & wm;
                    if cur != 0 {
                        $rmw_nonzero = true;
                    }
                }
                SOp::FetchSub { val, .. } => {
                    let v = (*val & wm) as $t;
                    let p = spec.fetch_sub_atomic::<$t>(a, v, Ordering::SeqCst);
                    vensure!(p as u64 == cur, "op {}: fetch_sub returned {:#x}, model {:#x}", i, p, cur);
                    $model[ri] = cur.wrapping_sub(v as u64) & wm;
                    if cur != 0 {
                        $rmw_nonzero = true;
                    }
                }
                SOp::FetchAnd { val, .. } => {
                    let v = (*val & wm) as $t;
                    let p = spec.fetch_and_atomic::<$t>(a, v, Ordering::SeqCst);
                    vensure!(p as u64 == cur, "op {}: fetch_and returned {:#x}, model {:#x}", i, p, cur);
                    $model[ri] = cur & v as u64;
                    if cur != 0 {
                        $rmw_nonzero = true;
                    }
                }
                SOp::FetchOr { val, .. } => {
                    let v = (*val & wm) as $t;
                    let p = spec.fetch_or_atomic::<$t>(a, v, Ordering::SeqCst);
                    vensure!(p as u64 == cur, "op {}: fetch_or returned {:#x}, model {:#x}", i, p, cur);
                    $model[ri] = cur | v as u64;
                    if cur != 0 {
                        $rmw_nonzero = true;
                    }
                }
                SOp::Update { new, .. } => {
                    let nv: Option<$t> = new.map(|n| (n & wm) as $t);
                    let res = spec.fetch_update_atomic::<$t, _>(a, Ordering::SeqCst, Ordering::SeqCst, |_o: $t| nv);
                    match (res, nv) {
                        (Ok(p), Some(n)) => {
                            vensure!(p as u64 == cur, "op {}: fetch_update Ok({:#x}), model {:#x}", i, p, cur);
                            $model[ri] = n as u64;
                        }
                        (Err(p), None) => {
                            vensure!(p as u64 == cur, "op {}: fetch_update Err({:#x}), model {:#x}", i, p, cur);
                        }
                        _ => vfail!("op {}: fetch_update result does not match the closure's answer", i),
                    }
                }
                SOp::SetZero { atomic, .. } => {
                    if *atomic {
                        spec.set_zero_atomic(a, Ordering::SeqCst)
                    } else {
                        unsafe { spec.set_zero(a) }
                    }
                    $model[ri] = 0;
                }
            }
            if let Some(e) = compare_all(w, &$model, &format!("after op {} ({:?})", i, op)) {
                return Outcome::fail(e);
            }
        }
    }};
}

fn canaries_set(w: &Window) -> (usize, usize) {
    // metadata bytes just outside the 3x window's range belong to other data; they are mapped
    // (page granularity) only when inside the mapped pages: use the first and last byte of the range
    // that belong to the *outer* thirds instead, and require them to stay as the model says.
    (w.meta_lo, w.meta_hi)
}

fn c20(c: &mut Check) {
    let n = c.tier.pick(30_000, 2_000_000);
    c.section_procs(
        "field-isolation",
        n,
        12,
        || (spec_sel(), init_values(), prop::collection::vec(sop(), 1..120)).prop_map(|(sel, init, ops)| SmCase { sel, init, ops }),
        |case: &SmCase, env: &Env| {
            let Some(w) = make_window(&case.sel, env.thread, 6) else {
                return Outcome::pass_l(false, vec!["out_of_domain"]);
            };
            let mut model = fill(&w, &case.init);
            let mut rmw_nonzero = false;
            let mut touched: std::collections::BTreeSet<usize> = Default::default();
            let _ = canaries_set(&w);
            sm_dispatch!(w.spec.log_num_of_bits, c20_ops, &w, case, model, rmw_nonzero, touched);
            // regions sharing a metadata byte: 8/bits regions per byte
            let per_byte = (8usize >> w.spec.log_num_of_bits).max(1);
            let mut shared = false;
            let t: Vec<usize> = touched.iter().copied().collect();
            for x in t.windows(2) {
                if x[0] / per_byte == x[1] / per_byte && per_byte > 1 {
                    shared = true;
                }
            }
            let mut l = vec![];
            if w.spec.log_num_of_bits < 3 {
                l.push("sub_byte");
            }
            if w.spec.log_num_of_bits > 3 {
                l.push("multi_byte");
            }
            Outcome::pass_l(shared && rmw_nonzero, l)
        },
    );
}

// ------------------------------------------------------------------ C21

#[derive(Serialize, Deserialize, Clone, Debug)]
struct BulkCase {
    sel: SpecSel,
    init: Vec<u64>,
    src_init: Vec<u64>,
    op: u8,
    start: u16,
    count: u16,
}

fn c21(c: &mut Check) {
    let n = c.tier.pick(30_000, 2_000_000);
    c.section_procs(
        "bulk-ops",
        n,
        12,
        || (spec_sel(), init_values(), init_values(), 0u8..3, any::<u16>(), any::<u16>()).prop_map(|(sel, init, src_init, op, start, count)| BulkCase { sel, init, src_init, op, start, count }),
        |case: &BulkCase, env: &Env| {
            let Some(w) = make_window(&case.sel, env.thread, 6) else {
                return Outcome::pass_l(false, vec!["out_of_domain"]);
            };
            let mut model = fill(&w, &case.init);
            let total = 3 * w.n;
            // range inside the middle third, in whole regions (callers' precondition)
            let s = w.n + (case.start as usize * w.n >> 16);
            let maxc = 2 * w.n - s;
            let cnt = case.count as usize * (maxc + 1) >> 16;
            let start = addr(w.base + s * w.region);
            let size = cnt * w.region;
            let wm = width_mask(w.spec.log_num_of_bits as u8);
            match case.op {
                0 => {
                    w.spec.bzero_metadata(start, size);
                    for i in s..s + cnt {
                        model[i] = 0;
                    }
                }
                1 => {
                    w.spec.bset_metadata(start, size);
                    for i in s..s + cnt {
                        model[i] = wm;
                    }
                }
                _ => {
                    // a second spec of identical shape placed right after the first one
                    let src = SideMetadataSpec { name: "verif-src", offset: mmtk::util::metadata::side_metadata::side_metadata_offset_after(&w.spec), ..w.spec };
                    let (rbase, rbytes) = mmtk::verif::side_metadata::reserved_range();
                    let (hi, _) = mmtk::verif::side_metadata::meta_location(&src, addr(w.base + total * w.region));
                    if hi.as_usize() + 4096 >= rbase.as_usize() + rbytes {
                        return Outcome::pass_l(false, vec!["out_of_domain"]);
                    }
                    let map_bytes = (total * w.region + 4095) & !4095;
                    if mmtk::verif::side_metadata::map(&[src], addr(w.base), map_bytes).is_err() {
                        return Outcome::pass_l(false, vec!["out_of_domain"]);
                    }
                    let mut srcm = vec![0u64; total];
                    for i in 0..total {
                        let v = case.src_init[i % case.src_init.len()] & wm;
                        store_field(&src, w.base + i * w.region, v);
                        srcm[i] = v;
                    }
                    w.spec.bcopy_metadata_contiguous(start, size, &src);
                    for i in s..s + cnt {
                        model[i] = srcm[i];
                    }
                    // the source must be untouched
                    for i in 0..total {
                        let got = load_field(&src, w.base + i * w.region);
                        vensure!(got == srcm[i], "bcopy changed the source field of region {}: {:#x} -> {:#x}", i, srcm[i], got);
                    }
                }
            }
            if let Some(e) = compare_all(&w, &model, &format!("after bulk op {} over regions [{}, {})", case.op, s, s + cnt)) {
                return Outcome::fail(e);
            }
            let bits = 1usize << w.spec.log_num_of_bits;
            let start_bit = (s * bits) % 8;
            let end_bit = ((s + cnt) * bits) % 8;
            let meta_bytes = cnt * bits / 8;
            let nt = cnt > 0 && (start_bit != 0 || end_bit != 0 || meta_bytes >= 3);
            Outcome::pass_l(nt, if cnt == 0 { vec!["empty_range"] } else { vec![] })
        },
    );
}

// ------------------------------------------------------------------ C22

#[derive(Serialize, Deserialize, Clone, Debug)]
struct FindCase {
    sel: SpecSel,
    /// indices (0..3n scaled) of regions with non-zero fields
    set: Vec<u16>,
    dense: bool,
    kind: u8,
    r: u16,
    off: u32,
    limit_sel: u8,
    limit_raw: u32,
    r2: u16,
}

fn c22(c: &mut Check) {
    let n = c.tier.pick(30_000, 3_000_000);
    let known_unaligned = c.is_known("find-prev-fast-unaligned-beyond-limit");
    c.section_procs(
        "find-and-scan",
        n,
        12,
        || {
            (spec_sel(), prop::collection::vec(any::<u16>(), 0..12), prop::bool::weighted(0.15), 0u8..3, any::<u16>(), any::<u32>(), 0u8..6, any::<u32>(), any::<u16>())
                .prop_map(|(sel, set, dense, kind, r, off, limit_sel, limit_raw, r2)| FindCase { sel, set, dense, kind, r, off, limit_sel, limit_raw, r2 })
        },
        move |case: &FindCase, env: &Env| {
            let max_bits = if case.kind == 2 { 6 } else { 3 };
            let Some(w) = make_window(&case.sel, env.thread, max_bits) else {
                return Outcome::pass_l(false, vec!["out_of_domain"]);
            };
            let total = 3 * w.n;
            let wm = width_mask(w.spec.log_num_of_bits as u8);
            let mut model = vec![0u64; total];
            if case.dense {
                for i in 0..total {
                    if !case.set.iter().any(|s| (*s as usize * total >> 16) == i) {
                        model[i] = 1 + (i as u64 % wm.max(1));
                        model[i] &= wm;
                        if model[i] == 0 {
                            model[i] = 1;
                        }
                    }
                }
            } else {
                for s in &case.set {
                    let i = *s as usize * total >> 16;
                    model[i] = (1 + (*s as u64)) & wm;
                    if model[i] == 0 {
                        model[i] = wm;
                    }
                }
            }
            for i in 0..total {
                if model[i] != 0 {
                    store_field(&w.spec, w.base + i * w.region, model[i]);
                }
            }
            let win_lo = w.base;
            let win_hi = w.base + total * w.region;
            let ri = w.n + (case.r as usize * w.n >> 16);
            let data_addr = w.base + ri * w.region + (case.off as usize % w.region);
            let limit: usize = match case.limit_sel {
                0 => 1,
                1 => 1 + (case.limit_raw as usize % 16),
                2 => w.region,
                3 => 1 + (case.limit_raw as usize % (w.region * 4).max(1)),
                4 => 1 + (case.limit_raw as usize % (w.n * w.region)),
                _ => w.n * w.region,
            };
            macro_rules! finds {
                ($t:ty,) => {{
                    match case.kind {
                        0 => {
                            // prev: highest region start a with non-zero field, a <= data_addr, a > data_addr - limit
                            let lo_excl = data_addr.saturating_sub(limit);
                            let mut expect = None;
                            let mut i = ri as isize;
                            while i >= 0 {
                                let a = w.base + i as usize * w.region;
                                if a <= lo_excl {
                                    break;
                                }
                                if model[i as usize] != 0 {
                                    expect = Some(a);
                                    break;
                                }
                                i -= 1;
                            }
                            if lo_excl < win_lo && expect.is_none() {
                                // the search would leave the window: out of this case's domain
                                return Outcome::pass_l(false, vec!["range_leaves_window"]);
                            }
                            let spec = w.spec;
                            let res = std::panic::catch_unwind(move || unsafe { spec.find_prev_non_zero_value::<$t>(addr(data_addr), limit) });
                            // the ambiguous corner: data_addr's own region is non-zero but its start is outside the limit
                            let own_start = w.base + ri * w.region;
                            let corner = model[ri] != 0 && own_start <= lo_excl;
                            match res {
                                Err(_) => {
                                    if corner && known_unaligned {
                                        return Outcome::Known { signature: "find-prev-fast-unaligned-beyond-limit".into(), nontrivial: true, labels: vec![] };
                                    }
                                    vfail!("find_prev_non_zero_value({:#x}, {}) panicked (mmtk's fast and simple paths disagree); own region start {:#x}, expected {:?} [{} bits, region {} B]", data_addr, limit, own_start, expect.map(|a| format!("{:#x}", a)), 1 << w.spec.log_num_of_bits, w.region);
                                }
                                Ok(got) => {
                                    let got = got.map(|a| a.as_usize());
                                    if got != expect {
                                        if corner && known_unaligned {
                                            return Outcome::Known { signature: "find-prev-fast-unaligned-beyond-limit".into(), nontrivial: true, labels: vec![] };
                                        }
                                        vfail!("find_prev_non_zero_value({:#x}, {}) = {:?}, region-by-region scan gives {:?} [{} bits, region {} B]", data_addr, limit, got.map(|a| format!("{:#x}", a)), expect.map(|a| format!("{:#x}", a)), 1 << w.spec.log_num_of_bits, w.region);
                                    }
                                }
                            }
                            let inside = expect.is_some();
                            let outside = model.iter().enumerate().any(|(i, v)| *v != 0 && (w.base + i * w.region <= lo_excl || i > ri));
                            let nt = inside && outside && limit > 64 * w.region / (1usize << w.spec.log_num_of_bits).max(1) / 8;
                            Outcome::pass_l(nt || (inside && outside && limit >= 8 * w.region), if data_addr % w.region != 0 { vec!["unaligned_addr"] } else { vec![] })
                        }
                        1 => {
                            // next: lowest region start a with non-zero field, align_down(data_addr) <= a < data_addr + limit
                            let hi_excl = data_addr + limit;
                            let mut expect = None;
                            let mut i = ri;
                            while i < total {
                                let a = w.base + i * w.region;
                                if a >= hi_excl {
                                    break;
                                }
                                if model[i] != 0 {
                                    expect = Some(a);
                                    break;
                                }
                                i += 1;
                            }
                            if hi_excl > win_hi && expect.is_none() {
                                return Outcome::pass_l(false, vec!["range_leaves_window"]);
                            }
                            let spec = w.spec;
                            let res = std::panic::catch_unwind(move || unsafe { spec.find_next_non_zero_value::<$t>(addr(data_addr), limit) });
                            match res {
                                Err(_) => vfail!("find_next_non_zero_value({:#x}, {}) panicked (fast and simple paths disagree); expected {:?} [{} bits, region {} B]", data_addr, limit, expect.map(|a| format!("{:#x}", a)), 1 << w.spec.log_num_of_bits, w.region),
                                Ok(got) => {
                                    let got = got.map(|a| a.as_usize());
                                    vensure!(got == expect, "find_next_non_zero_value({:#x}, {}) = {:?}, region-by-region scan gives {:?} [{} bits, region {} B]", data_addr, limit, got.map(|a| format!("{:#x}", a)), expect.map(|a| format!("{:#x}", a)), 1 << w.spec.log_num_of_bits, w.region);
                                }
                            }
                            let inside = expect.is_some();
                            let outside = model.iter().enumerate().any(|(i, v)| *v != 0 && (i < ri || w.base + i * w.region >= hi_excl));
                            Outcome::pass_l(inside && outside && limit >= 8 * w.region, if data_addr % w.region != 0 { vec!["unaligned_addr"] } else { vec![] })
                        }
                        _ => {
                            // scan [start, end) in ascending order, each once; callers pass region-aligned bounds
                            let rj = w.n + (case.r2 as usize * w.n >> 16);
                            let (a, b) = if ri <= rj { (ri, rj) } else { (rj, ri) };
                            let start = w.base + a * w.region;
                            let end = w.base + b * w.region;
                            let mut got: Vec<usize> = vec![];
                            w.spec.scan_non_zero_values::<$t>(addr(start), addr(end), &mut |x: Address| got.push(x.as_usize()));
                            let expect: Vec<usize> = (a..b).filter(|i| model[*i] != 0).map(|i| w.base + i * w.region).collect();
                            vensure!(got == expect, "scan_non_zero_values([{:#x},{:#x})) visited {:x?}, region-by-region scan gives {:x?} [{} bits, region {} B]", start, end, got, expect, 1 << w.spec.log_num_of_bits, w.region);
                            let outside = model.iter().enumerate().any(|(i, v)| *v != 0 && (i < a || i >= b));
                            Outcome::pass_l(!expect.is_empty() && outside && (b - a) * (1usize << w.spec.log_num_of_bits) > 64, vec!["scan"])
                        }
                    }
                }};
            }
            let out: Outcome = sm_dispatch!(w.spec.log_num_of_bits, finds,);
            // clean up the fields we set
            unsafe { std::ptr::write_bytes(w.meta_lo as *mut u8, 0, w.meta_hi - w.meta_lo) };
            out
        },
    );
}

// ------------------------------------------------------------------ C25

#[derive(Serialize, Deserialize, Clone, Debug)]
struct SanityCase {
    global: bool,
    /// (log_bits, log_region)
    specs: Vec<(u8, u8)>,
    base_offset: u64,
    /// perturbation of spec i: None = laid out after the previous one
    perturb: Vec<Option<(u8, u64)>>,
    order: Vec<u8>,
}

fn c25(c: &mut Check) {
    let n = c.tier.pick(20_000, 1_000_000);
    let known = c.is_known("sanity-overlap-end-computed-from-base");
    c.section_procs(
        "overlap-detection",
        n,
        8, // the sanity checker keeps process-global maps behind one lock: one evaluation thread per process
        || {
            (any::<bool>(), prop::collection::vec((0u8..7, 3u8..20), 2..7), prop_oneof![1 => Just(0u64), 2 => 0u64..(1 << 34)], prop::collection::vec(prop::option::weighted(0.35, (0u8..5, any::<u64>())), 6), prop::collection::vec(any::<u8>(), 6))
                .prop_map(|(global, specs, base_offset, perturb, order)| SanityCase { global, specs, base_offset, perturb, order })
        },
        move |case: &SanityCase, _env: &Env| {
            use mmtk::util::metadata::side_metadata::side_metadata_offset_after;
            mmtk::verif::side_metadata::initialize();
            // keep every spec small enough that size limits do not interfere: data:meta ratio >= 64
            let mut specs: Vec<SideMetadataSpec> = vec![];
            let mut prev: Option<SideMetadataSpec> = None;
            for (i, (lb, lr)) in case.specs.iter().enumerate() {
                let log_bits = *lb as usize;
                let log_region = (*lr as usize).max(log_bits + 3);
                let mut s = SideMetadataSpec { name: ["s0", "s1", "s2", "s3", "s4", "s5"][i], is_global: case.global, offset: 0, log_num_of_bits: log_bits, log_bytes_in_region: log_region };
                s.offset = match &prev {
                    None => (case.base_offset as usize) & !7,
                    Some(p) => side_metadata_offset_after(p),
                };
                if let Some(Some((kind, x))) = case.perturb.get(i) {
                    if let Some(p) = &prev {
                        let prange = mmtk::verif::side_metadata::address_range_size(p);
                        s.offset = match kind {
                            0 => p.offset,                                                     // identical offsets
                            1 => p.offset + (((*x as usize) % prange) & !7),                      // start inside the previous spec
                            2 => (p.offset + prange).saturating_sub(8),                         // overlap by the last word
                            3 => p.offset.saturating_sub((((*x as usize) % mmtk::verif::side_metadata::address_range_size(&s)) & !7).min(p.offset)), // reach into it from below
                            _ => side_metadata_offset_after(p) + (((*x as usize) % (1 << 20)) & !7), // gap: still disjoint
                        };
                    }
                }
                prev = Some(s);
                specs.push(s);
            }
            // oracle
            let range = |s: &SideMetadataSpec| (s.offset, s.offset + mmtk::verif::side_metadata::address_range_size(s));
            let mut overlap_pairs = vec![];
            for i in 0..specs.len() {
                for j in i + 1..specs.len() {
                    let (a0, a1) = range(&specs[i]);
                    let (b0, b1) = range(&specs[j]);
                    if a0 < b1 && b0 < a1 {
                        overlap_pairs.push((i, j));
                    }
                }
            }
            // total size limits: stay below the reserved range so that only overlap can be rejected
            let (_rbase, rbytes) = mmtk::verif::side_metadata::reserved_range();
            if specs.iter().any(|s| range(s).1 >= rbytes) {
                return Outcome::pass_l(false, vec!["out_of_domain_size"]);
            }
            // declaration order is irrelevant to the property: permute
            let mut order: Vec<usize> = (0..specs.len()).collect();
            for (k, o) in case.order.iter().enumerate() {
                if k < order.len() {
                    let j = (*o as usize) % order.len();
                    order.swap(k, j);
                }
            }
            let listed: Vec<SideMetadataSpec> = order.iter().map(|i| specs[*i]).collect();
            let res = if case.global { mmtk::verif::side_metadata::sanity_verify("verif-policy", &listed, &[]) } else { mmtk::verif::side_metadata::sanity_verify("verif-policy", &[], &listed) };
            mmtk::verif::side_metadata::sanity_reset();
            let rejected = res.is_err();
            let should = !overlap_pairs.is_empty();
            let big_offsets = overlap_pairs.iter().any(|(i, j)| {
                let small = mmtk::verif::side_metadata::address_range_size(&specs[*i]).min(mmtk::verif::side_metadata::address_range_size(&specs[*j]));
                specs[*i].offset.min(specs[*j].offset) > small
            });
            let nt = should && overlap_pairs.iter().any(|p| *p != (0, 1)) && big_offsets;
            if rejected != should {
                if should && !rejected && known {
                    return Outcome::Known { signature: "sanity-overlap-end-computed-from-base".into(), nontrivial: nt, labels: vec![] };
                }
                let desc: Vec<String> = specs.iter().map(|s| format!("[{:#x},{:#x}) {}b/2^{}B", range(s).0, range(s).1, 1 << s.log_num_of_bits, s.log_bytes_in_region)).collect();
                vfail!("verify_metadata_context {} a {} spec set whose overlapping pairs are {:?}: {} ({})", if rejected { "rejected" } else { "accepted" }, if case.global { "global" } else { "local" }, overlap_pairs, desc.join(", "), res.err().unwrap_or_default());
            }
            Outcome::pass_l(nt, if should { vec!["overlapping"] } else { vec!["disjoint"] })
        },
    );
}
