#!/bin/bash
# usage: mkwt.sh <name>  -> creates scratch worktree /tmp/wt-<name> of /repo HEAD
set -e
d=/tmp/wt-$1
git -C /repo worktree add -f --detach $d HEAD >/dev/null 2>&1
echo $d
