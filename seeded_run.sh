#!/bin/bash
# usage: seeded_run.sh <seed-id> <check-id>...   (applies /verif/seeded/<seed-id>/patch.diff to /repo, runs the checks' quick tier, undoes the change)
sid=$1; shift
cd /verif
if ! git -C /repo diff --quiet; then echo "/repo has uncommitted changes"; exit 2; fi
git -C /repo apply /verif/seeded/$sid/patch.diff || { echo "patch does not apply"; exit 2; }
export VERIF_NO_EVIDENCE=1 VERIF_REPLAY_DIR=/verif/seeded/$sid/replays
mkdir -p $VERIF_REPLAY_DIR
for c in "$@"; do
  start=$(date +%s)
  ./check $c --tier quick > /verif/seeded/$sid/run-$c.log 2>&1; code=$?
  echo "$sid check=$c exit=$code wall=$(( $(date +%s) - start ))s $(grep -m1 '^VIOLATION' /verif/seeded/$sid/run-$c.log)"
done
git -C /repo checkout -- .
