#!/bin/bash
# Runs the quick tier of every registered check in /verif against /repo's working tree (VERIF_SEED as given,
# default 1) and leaves evidence/<id>.json behind.  Refuses to run while /repo carries uncommitted changes.
cd /verif
if ! git -C /repo diff --quiet; then echo "/repo has uncommitted changes"; exit 2; fi
export VERIF_SEED=${VERIF_SEED:-1}
rc=0
for id in $(python3 -c "import json; print(' '.join(c['property_id'] for c in json.load(open('MANIFEST.json'))['checks']))"); do
  start=$(date +%s)
  ./check $id --tier quick > /tmp/refresh-$id.log 2>&1; code=$?
  echo "$id exit=$code wall=$(( $(date +%s) - start ))s $(grep -c '^KNOWN-FINDING' /tmp/refresh-$id.log) known $(grep -m1 '^VIOLATION' /tmp/refresh-$id.log)"
  [ $code -ne 0 ] && rc=1
done
exit $rc
