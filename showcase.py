#!/usr/bin/env python3
import json,sys
for f in sys.argv[1:]:
    v=json.load(open(f))
    c=v.get('case',v)
    print(f, str(v.get('reason'))[:400])
    if isinstance(c,dict) and 'ops' in c:
        print({k:c[k] for k in c if k!='ops'})
        for i,o in enumerate(c['ops']): print('  ',i,json.dumps(o))
    else:
        print(json.dumps(c)[:3000])
