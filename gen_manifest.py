#!/usr/bin/env python3
"""Regenerates MANIFEST.json from the table below (kept in one place so that it is always valid)."""
import json, subprocess
hook_commits = subprocess.run(["git","-C","/repo","log","--format=%h %s"],capture_output=True,text=True).stdout.splitlines()
hooks=[l.split()[0] for l in hook_commits if "verif hooks" in l]
E1="shadowvm"
checks = {
 # id: (engine, technique, level text, level note, design ref)
 "C01": (E1,"property-based testing: generated mutator programs vs. shadow-heap reference model (proptest, shrinking)","Randomized exploration: generated programs x 11 plans x 4 metadata layouts x 1-4 workers, each run against real MMTk in its own process; after every pause a lock-step walk compares the real heap with an out-of-heap shadow graph (identity, size, payload, slots). Finds violations, never proves absence.","Trusts the ShadowVM binding and the shadow model; schedules of GC workers are whatever the OS produces; heaps <= 40 MiB.","6/C01"),
 "C17": ("unit","randomized real-thread races with widened copy window vs. single-winner oracle (proptest-generated rounds)","Randomized exploration with real OS threads (2-8 per round, barrier start) of the forwarding protocol on three metadata layouts, including declining winners. A failing schedule cannot be replayed exactly; the saved case pins the configuration only.","Real-thread interleavings are whatever the OS produces, perturbed by a generated spin; exactly-one-copy is asserted for the non-declining protocol.","6/C17"),
 "C18": ("unit","randomized real-thread races on transition helpers vs. exactly-one-success oracle (proptest-generated rounds)","Randomized exploration with real OS threads racing MarkState::test_and_mark, the Immix attempt_mark loop, the barrier log loop, pin_object and raw header/side CAS loops, with neighbour threads flipping adjacent fields of the same metadata byte.","Schedules are OS-produced; the raced helpers are the real ones re-exported (log/mark loops are transcribed wrappers of private methods, see MANIFEST hooks).","6/C18"),
 "C19": ("unit","stateful property-based testing with real threads: push/pop/flush histories vs. multiset model (proptest)","Randomized exploration of block pool histories with 1-4 pusher threads (own worker ordinals), 0-4 popper threads, queue overflow (256) and flushes, checked against a multiset model at every barrier.","Pushers never run concurrently with flush_all (as in mmtk).","6/C19"),
 "C20": ("unit","stateful property-based testing: side-metadata op histories vs. integer-array model (proptest, one process per shard)","Randomized exploration of specs (1-64 bits, region 1 B-4 MiB, several offsets) x histories of all accessors against an array model; the whole 3x window is compared after every operation.","Single-threaded; 64-bit contiguous side metadata only (chunked 32-bit local metadata cannot run on this host).","6/C20"),
 "C21": ("unit","property-based testing: bulk zero/set/copy vs. array model (proptest)","Randomized exploration of bzero/bset/bcopy ranges (mid-byte, mid-word starts/ends) over pre-filled windows.","Region-aligned ranges (callers' precondition).","6/C21"),
 "C22": ("unit","property-based testing: fast search/scan vs. independent region-by-region scan (proptest)","Randomized exploration of find_prev/find_next/scan over sparse, dense and run-structured contents with unaligned addresses and limits from 1 to the window size.","Searches that would leave the mapped window without a hit are out of domain; mmtk's internal fast-vs-simple assertion is not the oracle (a panic counts as failure).","6/C22"),
 "C23": ("unit","property-based testing: operation histories vs. bit-exact reference model (proptest)","Randomized exploration of header specs (offset -64..127, widths 1-64, masks) x accessor histories against a 256-bit model checked after every operation.","Single-threaded histories only (races are C18).","6/C23"),
 "C25": ("unit","property-based testing: generated spec sets vs. interval-arithmetic oracle (proptest)","Randomized exploration of 2-6 spec sets (disjoint by construction, then perturbed into overlaps incl. large offsets); the sanity check must reject exactly the overlapping sets.","Spec sizes kept below the documented total-size limits so that only overlap can cause rejection.","6/C25"),
 "C26": ("unit","stateful property-based testing: alloc/free histories vs. run-map model (proptest)","Randomized exploration of IntArrayFreeList histories incl. child lists and uncoalescable boundaries against an ordered run-map model.","RawMemoryFreeList growth is C27.","6/C26"),
 "C27": ("unit","property-based testing: growth step sequences vs. capacity oracle, guard page (proptest)","Randomized exploration of RawMemoryFreeList configurations whose table is / is not a multiple of the block size, grown in generated steps to the maximum inside a PROT_NONE reservation with a guard after the limit.","","6/C27"),
 "C32": ("unit","property-based testing: encode/decode round trip (proptest, one process per layout)","Randomized exploration of chunk-aligned ranges under a compressed-pointer (32-bit style) layout and all space indices under the 64-bit layout.","","6/C32"),
 "C33": ("unit","property-based testing: arithmetic vs. search / u128 oracle (proptest)","Randomized + boundary-biased exploration of align_allocation (5 MIN/MAX alignment variants) and rounding helpers against independent oracles.","Addresses >= 2^63 are outside the domain (signed Address + ByteOffset arithmetic).","6/C33"),
 "C35": ("unit","exhaustive enumeration of the finite size x alignment space + generated fresh-block fills","Complete enumeration of sizes 0..=MAX_BIN_SIZE x alignments x 5 VM alignment variants for fit and monotonicity; generated MarkSweep runs check the cells of a fresh block per size class.","Fresh-block section is sampled, not exhaustive.","6/C35"),
 "C36": ("unit","stateful property-based testing: treadmill histories vs. four-set model (proptest)","Randomized exploration of add/flip/copy/collect histories following the LOS protocol against a set model; exactly-one-set membership checked after every step.","Protocol-conformant histories only.","6/C36"),
 "C37": ("unit","property-based testing: generated object layouts vs. prefix-sum oracle (proptest)","Randomized exploration of object layouts in a 1 MiB region (objects spanning/abutting 512-byte blocks) with marks set exactly as CompressorSpace does.","Single region; the whole Compressor plan is exercised by C01.","6/C37"),
 "C38": ("unit","stateful property-based testing: GC statistics histories vs. bounds invariant (proptest)","Randomized exploration of MemBalancerTrigger histories (pending allocations, statistics incl. zero times) checking min <= size <= max after every step.","Times are >= 1 ns or exactly 0 (Instant differences); page counts < 2^32.","6/C38"),
 "C39": ("unit","grammar-based property testing with mutation vs. reference parsers (proptest)","Randomized exploration of grammar-generated and mutated option strings against reference parsers written from the documentation, with field-by-field snapshots of Options.","Where the documentation is silent (leading '+', exotic float syntax, text around Delegated, CPU count) the oracle abstains.","6/C39"),
 "C40": ("unit","property-based testing: iterator output vs. maximal-run partition oracle (proptest)","Randomized exploration of sequences x key functions x partial consumption against an independent partition.","","6/C40"),
}
props=[json.loads(l) for l in open("/verif/properties.jsonl")]
ids=[p["id"] for p in props]
m={
 "version":1,
 "setup_cmd":"cd /verif/harness && CARGO_NET_OFFLINE=true cargo build --release --offline --features vo_bit --target-dir target-vo",
 "hooks":{"guard":"--cfg mmtk_verif","enable":"RUSTFLAGS='--cfg mmtk_verif' (set in /verif/harness/.cargo/config.toml); hooks live in /repo/src/verif.rs and a few #[cfg(mmtk_verif)] items","baseline_off_cmd":"cd /repo && cargo nextest run --workspace --no-fail-fast --tool-config-file pb:/w/lib/nextest.toml --profile pb --test-threads 8 --offline","source_commits":hooks,"add_only":True},
 "engines":[
  {"name":"shadowvm","path":"harness/src/shadow","serves_properties":[i for i in ids if checks.get(i,("",))[0]==E1],"kind_free_text":"whole-system engine: generated case -> one process with real MMTk + ShadowVM binding + shadow heap oracle"},
  {"name":"unit","path":"harness/src/checks","serves_properties":[i for i in ids if checks.get(i,("",))[0]=="unit"],"kind_free_text":"in-process proptest properties over components reached through cfg(mmtk_verif) hooks, with reference models"},
 ],
 "checks":[],
 "notes":"Every check is `./check <ID> --tier quick|thorough`; it rebuilds the harness (and mmtk-core from /repo's working tree, hooks on) first. exit 0 held / 1 VIOLATION / 2 inconclusive. Saved inputs under corpus/<ID>/ are replayed first. Known findings: known_findings.json.",
 "not_applicable":[],
}
for i in ids:
    if i in checks:
        eng,tech,text,note,ref=checks[i]
        cat="other" if i=="C35" else "exploration"
        m["checks"].append({"property_id":i,"quick_cmd":f"./check {i} --tier quick","thorough_cmd":f"./check {i} --tier thorough","evidence_file":f"/verif/evidence/{i}.json","replay_cmd_template":f"./check {i} --replay {{path}}","engine":eng,"level_claimed":{"category":cat,"text":text,"design_ref":"DESIGN.md section "+ref},"level_note":note or "Trusts the harness's reference model.","technique":tech})
    else:
        m["not_applicable"].append({"property_id":i,"reason":"check not yet registered in this commit (work in progress; see DESIGN.md section 6 for the planned check)"})
json.dump(m,open("/verif/MANIFEST.json","w"),indent=1)
print(len(m["checks"]),"checks,",len(m["not_applicable"]),"not yet registered")
