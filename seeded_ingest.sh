#!/bin/bash
# usage: seeded_ingest.sh <worktree-name> <seed-id> <property> "<demo cargo test args>" 
# Confirms a sub-agent's change in its scratch worktree (/tmp/wt-<name>):
#   - the existing test suite passes with the change (504 stable tests; the baseline's one always-failing test excepted)
#   - the demonstration fails with the change and passes without it
# then stores patch + demonstration + meta.json under /verif/seeded/<seed-id>/ and removes the worktree.
set -u
name=$1; sid=$2; prop=$3; demo=$4; paths=${5:-src Cargo.toml}
wt=/tmp/wt-$name
out=/verif/seeded/$sid
mkdir -p $out
cd $wt || exit 2
export CARGO_TARGET_DIR=$wt/target CARGO_NET_OFFLINE=true
if [ -n "${PATCH_FILE:-}" ]; then cp "$PATCH_FILE" $out/patch.diff; else git diff -- $paths > $out/patch.diff; fi
# tracked files changed only for the demonstration (e.g. a `mod` line registering a new test)
git diff > /tmp/all-$$.diff
if ! cmp -s /tmp/all-$$.diff $out/patch.diff; then git diff -- $(git diff --name-only | grep -v -x -F "$(git diff --name-only -- $paths)") > $out/demo/../demo-tracked.diff 2>/dev/null; fi
rm -f /tmp/all-$$.diff
[ -s $out/patch.diff ] || { echo "empty patch"; exit 2; }
# demonstration files = untracked files except MUTANT.md
git ls-files --others --exclude-standard | grep -v '^MUTANT.md$' | grep -v '^target[^/]*/' > /tmp/demo-files-$$.txt
mkdir -p $out/demo
while read f; do mkdir -p $out/demo/$(dirname $f); cp $f $out/demo/$f; done < /tmp/demo-files-$$.txt
cp MUTANT.md $out/MUTANT.md 2>/dev/null
echo "== suite with change"
tracked_tests=$(for f in $(git ls-files 'tests/*.rs'); do echo --test $(basename $f .rs); done)
cargo test --workspace --no-fail-fast --offline --lib $tracked_tests > /tmp/suite-$$.log 2>&1
suite=$(grep -E "^test result" /tmp/suite-$$.log | tr '\n' ';')
newfail=$(grep -E "^test .* \.\.\. FAILED" /tmp/suite-$$.log | grep -v test_side_metadata_sanity_verify_no_overlap_contiguous | grep -v -E "${DEMO_PAT:-__no_demo_pattern__}" | head -5)
echo "$suite"; echo "unexpected failures: [$newfail]"
echo "== demo with change (expect failure)"
env ${DEMO_ENV:-} RUSTFLAGS="${DEMO_RUSTFLAGS:-}" cargo test --offline $demo > /tmp/demo-with-$$.log 2>&1; with=$?
echo "exit $with"
echo "== demo without change (expect pass)"
git apply -R $out/patch.diff
env ${DEMO_ENV:-} RUSTFLAGS="${DEMO_RUSTFLAGS:-}" cargo test --offline $demo > /tmp/demo-without-$$.log 2>&1; without=$?
echo "exit $without"
git apply $out/patch.diff
python3 - "$out" "$sid" "$prop" "$demo" "$suite" "$with" "$without" "$newfail" <<'PY'
import json,sys
out,sid,prop,demo,suite,w,wo,newfail=sys.argv[1:9]
meta={"id":sid,"property":prop,"demo_cmd":"cargo test --offline "+demo,"suite_with_change":suite,"suite_unexpected_failures":newfail,
      "demo_exit_with_change":int(w),"demo_exit_without_change":int(wo),
      "confirmed": int(w)!=0 and int(wo)==0 and newfail=="",
      "needs":"see MUTANT.md (written by the sub-agent that produced the change)","ran":["cargo test --workspace --no-fail-fast --offline --lib + the tracked integration tests (in the scratch worktree, with the change)","demonstration with and without the change"]}
json.dump(meta,open(out+"/meta.json","w"),indent=1)
print("confirmed:",meta["confirmed"])
PY
rm -f /tmp/suite-$$.log /tmp/demo-with-$$.log /tmp/demo-without-$$.log /tmp/demo-files-$$.txt
