//! ShadowVM: a complete `VMBinding` whose object model lets an out-of-heap
//! shadow heap re-derive what every object must look like after any GC.
//!
//! Object layout (word = 8 bytes), `S` = object start:
//!   S+0   GC word 0   (forwarding pointer / forwarding bits when in header)
//!   S+8   GC word 1   (other in-header metadata bits of header-heavy variants)
//!   S+16  meta word   size:u32 | nrefs:u16 | kind:u8 | align_code:u8
//!   S+24  id:u64
//!   S+32  nrefs reference slots
//!   ...   payload bytes  f(id, i)
//! The object reference is `S + REF_OFFSET` (0 or 8 depending on the variant);
//! `ref_to_header` is always `S`.

use mmtk::util::alloc::AllocationError;
use mmtk::util::copy::{CopySemantics, GCWorkerCopyContext};
use mmtk::util::opaque_pointer::*;
use mmtk::util::{Address, ObjectReference};
use mmtk::vm::slot::{MemorySlice, SimpleSlot, Slot};
use mmtk::vm::*;
use mmtk::{Mutator, MMTK};
use std::sync::atomic::{AtomicU64, AtomicUsize, Ordering};
use std::sync::{Condvar, Mutex};

pub const HEADER_BYTES: usize = 32;
pub const OFF_META: usize = 16;
pub const OFF_ID: usize = 24;
pub const OFF_SLOTS: usize = 32;

pub const KIND_PLAIN: u8 = 0;
pub const KIND_SOFT: u8 = 1;
pub const KIND_WEAK: u8 = 2;
pub const KIND_PHANTOM: u8 = 3;
pub const KIND_NODE: u8 = 4; // node-enqueuing object (no slot enqueuing)

#[derive(Clone, Copy, PartialEq, Eq, Debug)]
pub enum Layout {
    /// all metadata on side except the forwarding pointer
    AllSide,
    /// OpenJDK-like: forwarding pointer + bits share GC word 0, rest on side
    FwdHeader,
    /// header-heavy: log, pin, LOS bits in GC word 1; forwarding in word 0; mark on side
    HeaderHeavy,
    /// AllSide with the declaration order of the local side specs permuted
    AllSidePermuted,
}

#[derive(Clone, Copy, Debug)]
pub struct VariantDesc {
    pub layout: Layout,
    pub ref_offset: usize,
    pub min_align: usize,
    pub max_align: usize,
}

pub const NUM_VARIANTS: usize = 4;

pub const fn variant(v: usize) -> VariantDesc {
    match v {
        0 => VariantDesc { layout: Layout::AllSide, ref_offset: 0, min_align: 8, max_align: 16 },
        1 => VariantDesc { layout: Layout::FwdHeader, ref_offset: 0, min_align: 8, max_align: 64 },
        2 => VariantDesc { layout: Layout::HeaderHeavy, ref_offset: 8, min_align: 8, max_align: 16 },
        3 => VariantDesc { layout: Layout::AllSidePermuted, ref_offset: 8, min_align: 8, max_align: 8 },
        // unit-only variants (C33): never instantiated as a whole system
        4 => VariantDesc { layout: Layout::AllSide, ref_offset: 0, min_align: 4, max_align: 8 },
        5 => VariantDesc { layout: Layout::AllSide, ref_offset: 0, min_align: 4, max_align: 64 },
        _ => VariantDesc { layout: Layout::AllSide, ref_offset: 0, min_align: 8, max_align: 8 },
    }
}

#[derive(Default)]
pub struct ShadowVM<const V: usize>;

impl<const V: usize> VMBinding for ShadowVM<V> {
    type VMObjectModel = ShadowVM<V>;
    type VMScanning = ShadowVM<V>;
    type VMCollection = ShadowVM<V>;
    type VMActivePlan = ShadowVM<V>;
    type VMReferenceGlue = ShadowVM<V>;
    type VMSlot = SimpleSlot;
    type VMMemorySlice = ShadowSlice;

    const MIN_ALIGNMENT: usize = variant(V).min_align;
    const MAX_ALIGNMENT: usize = variant(V).max_align;
    const USE_ALLOCATION_OFFSET: bool = true;
}

// ---------------------------------------------------------------- raw object access

#[inline]
pub fn obj_start_of(refaddr: usize, ref_offset: usize) -> usize {
    refaddr - ref_offset
}

pub struct RawObj {
    pub start: usize,
}

impl RawObj {
    #[inline]
    pub fn meta(&self) -> u64 {
        unsafe { *((self.start + OFF_META) as *const u64) }
    }
    pub fn size(&self) -> usize {
        (self.meta() & 0xffff_ffff) as usize
    }
    pub fn nrefs(&self) -> usize {
        ((self.meta() >> 32) & 0xffff) as usize
    }
    pub fn kind(&self) -> u8 {
        ((self.meta() >> 48) & 0xff) as u8
    }
    pub fn align_code(&self) -> u8 {
        ((self.meta() >> 56) & 0xff) as u8
    }
    pub fn id(&self) -> u64 {
        unsafe { *((self.start + OFF_ID) as *const u64) }
    }
    pub fn slot_addr(&self, i: usize) -> usize {
        self.start + OFF_SLOTS + 8 * i
    }
    pub fn slot(&self, i: usize) -> usize {
        unsafe { (*(self.slot_addr(i) as *const AtomicUsize)).load(Ordering::Relaxed) }
    }
    pub fn set_slot(&self, i: usize, v: usize) {
        unsafe { (*(self.slot_addr(i) as *const AtomicUsize)).store(v, Ordering::Relaxed) }
    }
    pub fn payload_start(&self) -> usize {
        self.start + OFF_SLOTS + 8 * self.nrefs()
    }
    pub fn write_header(start: usize, size: usize, nrefs: usize, kind: u8, align_code: u8, id: u64) {
        let meta: u64 = (size as u64 & 0xffff_ffff) | ((nrefs as u64) << 32) | ((kind as u64) << 48) | ((align_code as u64) << 56);
        unsafe {
            *((start + OFF_META) as *mut u64) = meta;
            *((start + OFF_ID) as *mut u64) = id;
        }
    }
}

#[inline]
pub fn payload_byte(id: u64, i: usize) -> u8 {
    let x = id.wrapping_mul(0x9E37_79B9_7F4A_7C15).wrapping_add((i as u64).wrapping_mul(0xD6E8_FEB8_6659_FD93));
    ((x >> 29) as u8) | 1
}

/// align code: bits 0..3 = log2(align), bits 4..7 = offset / 8 (offset < 128)
pub fn encode_align(align: usize, offset: usize) -> u8 {
    (align.trailing_zeros() as u8 & 0xf) | (((offset / 8) as u8 & 0xf) << 4)
}
pub fn decode_align(code: u8) -> (usize, usize) {
    (1usize << (code & 0xf), ((code >> 4) as usize) * 8)
}

// ---------------------------------------------------------------- memory slice

#[derive(Debug, PartialEq, Eq, Clone, Hash)]
pub struct ShadowSlice {
    pub obj: Option<ObjectReference>,
    pub start: Address,
    pub end: Address,
}

pub struct ShadowSliceIter {
    cursor: Address,
    limit: Address,
}

impl Iterator for ShadowSliceIter {
    type Item = SimpleSlot;
    fn next(&mut self) -> Option<SimpleSlot> {
        if self.cursor >= self.limit {
            None
        } else {
            let s = SimpleSlot::from_address(self.cursor);
            self.cursor += 8usize;
            Some(s)
        }
    }
}

impl MemorySlice for ShadowSlice {
    type SlotType = SimpleSlot;
    type SlotIterator = ShadowSliceIter;
    fn iter_slots(&self) -> ShadowSliceIter {
        ShadowSliceIter { cursor: self.start, limit: self.end }
    }
    fn object(&self) -> Option<ObjectReference> {
        self.obj
    }
    fn start(&self) -> Address {
        self.start
    }
    fn bytes(&self) -> usize {
        self.end - self.start
    }
    fn copy(src: &Self, tgt: &Self) {
        unsafe {
            let words = tgt.bytes() >> 3;
            std::ptr::copy(src.start.to_ptr::<usize>(), tgt.start.to_mut_ptr::<usize>(), words);
        }
    }
}

// ---------------------------------------------------------------- global binding state

pub const ROOTS_PER_MUTATOR: usize = 48;
pub const MAX_MUTATORS: usize = 4;
pub const GLOBAL_ROOTS: usize = 16;

pub struct MutatorRec {
    pub ptr: usize, // *mut Mutator<VM>, 0 = not bound
    pub roots: Box<[AtomicUsize; ROOTS_PER_MUTATOR]>,
    /// root kinds: 0 = slot root, 1 = pinning node root, 2 = transitively pinning node root
    pub root_kind: Box<[AtomicUsize; ROOTS_PER_MUTATOR]>,
}

#[derive(Clone, Debug, serde::Serialize)]
pub enum Ev {
    Stop { worker: usize },
    Stopped,
    Resume { worker: usize },
    ScanMutator { m: usize, worker: usize },
    ScanVMRoots,
    Copy { from: usize, to: usize },
    ScanObject { obj: usize },
    PrepareRescan,
    ProcessWeak { round: usize, ret: bool },
    ForwardWeak,
    PostForwarding,
    BlockEnter { m: usize },
    BlockExit { m: usize },
    Oom { kind: u8 },
    SpawnWorker { ordinal: usize },
    WorkerExit { ordinal: usize },
    Sched(String),
    /// scheduler events reported by the cfg(mmtk_verif) hooks (mirror of mmtk::verif::events::Ev)
    PacketAdd { stage: usize, name: &'static str, local: bool },
    PacketStart { worker: usize, name: &'static str },
    PacketEnd { worker: usize, name: &'static str },
    BucketOpenByUpdate { stage: usize, earlier: Vec<(usize, bool, bool, bool)> },
    BucketOpen { stage: usize },
    BucketClose { stage: usize, empty: bool },
    Park { worker: usize, parked: usize, total: usize },
    LastParked { worker: usize, result: u8 },
    Unpark { worker: usize, parked: usize },
    Request { goal: u8, newly: bool },
    GoalStart { goal: u8 },
    GoalComplete,
    GcFinished { worker: usize },
    Surrender { ordinal: usize, all: bool },
    /// bucket states (stage, enabled, open, empty) sampled by the binding inside resume_mutators,
    /// together with the scan/copy counters at that moment
    AtResume { buckets: Vec<(usize, bool, bool, bool)>, scans: u64, copies: u64 },
    /// counters sampled at the entry of stop_all_mutators
    AtStop { scans: u64, copies: u64 },
}

/// Sink installed into mmtk's cfg(mmtk_verif) event hooks.
pub fn process_start() -> std::time::Instant {
    static START: std::sync::OnceLock<std::time::Instant> = std::sync::OnceLock::new();
    *START.get_or_init(std::time::Instant::now)
}

pub fn sched_sink(e: mmtk::verif::events::Ev) {
    use mmtk::verif::events::Ev as M;
    {
        let gl = g();
        gl.sch_last_event_ms.store(process_start().elapsed().as_millis() as u64, Ordering::SeqCst);
        match &e {
            M::Park { parked, total, .. } => {
                gl.sch_parked.store(*parked, Ordering::SeqCst);
                gl.sch_total.store(*total, Ordering::SeqCst);
            }
            M::Unpark { parked, .. } => gl.sch_parked.store(*parked, Ordering::SeqCst),
            M::Request { goal, .. } => {
                gl.sch_requests.fetch_or(1 << *goal, Ordering::SeqCst);
            }
            M::GoalStart { goal } => {
                gl.sch_requests.fetch_and(!(1usize << *goal), Ordering::SeqCst);
                gl.sch_current.store(*goal as usize + 1, Ordering::SeqCst);
            }
            M::GoalComplete => gl.sch_current.store(0, Ordering::SeqCst),
            _ => {}
        }
    }
    let x = match e {
        M::PacketAdd { stage, name, local } => Ev::PacketAdd { stage, name, local },
        M::PacketStart { worker, name } => Ev::PacketStart { worker, name },
        M::PacketEnd { worker, name } => Ev::PacketEnd { worker, name },
        M::BucketOpenByUpdate { stage, earlier } => Ev::BucketOpenByUpdate { stage, earlier },
        M::BucketOpen { stage } => Ev::BucketOpen { stage },
        M::BucketClose { stage, empty } => Ev::BucketClose { stage, empty },
        M::Park { worker, parked, total } => Ev::Park { worker, parked, total },
        M::LastParked { worker, result } => Ev::LastParked { worker, result },
        M::Unpark { worker, parked } => Ev::Unpark { worker, parked },
        M::Request { goal, newly } => Ev::Request { goal, newly },
        M::GoalStart { goal } => Ev::GoalStart { goal },
        M::GoalComplete => Ev::GoalComplete,
        M::GcFinished { worker } => Ev::GcFinished { worker },
        M::Surrender { ordinal, all } => Ev::Surrender { ordinal, all },
    };
    ev(x);
}

#[derive(Default)]
pub struct SyncState {
    pub stop_requested: bool,
    pub driver_parked: bool,
    pub resume_epoch: u64,
    pub stop_epoch: u64,
}

pub struct Ephemeron {
    pub key: usize,
    pub value: usize,
    pub key_id: u64,
    pub value_id: u64,
    pub traced: bool,
}

pub struct WeakState {
    pub ephemerons: Vec<Ephemeron>,
    /// per GC counters (reset by the driver after each GC)
    pub rounds_this_gc: usize,
    pub rets_this_gc: Vec<bool>,
    pub forward_calls_this_gc: usize,
    pub forward_after_process: bool,
    pub post_forwarding_this_gc: usize,
    /// (reference object address, referent slot value at enqueue time)
    pub enqueued: Vec<(usize, usize)>,
    /// addresses the driver wants probed with `is_reachable()` at the first
    /// `process_weak_refs` call of each GC, and the answers
    pub probe_addrs: Vec<usize>,
    pub probe_reachable: Vec<bool>,
    pub probed: bool,
    /// new addresses of the values traced in the previous round
    pub traced_last_round: Vec<usize>,
    pub closure_violation: Option<String>,
    /// ephemeron entries dropped because their key died: (key_id, value_id)
    pub dropped: Vec<(u64, u64)>,
}

pub struct Globals {
    pub mmtk: AtomicUsize,
    pub sync: Mutex<SyncState>,
    pub cv: Condvar,
    pub mutators: Mutex<Vec<MutatorRec>>,
    pub global_roots: Box<[AtomicUsize; GLOBAL_ROOTS]>,
    pub events: Mutex<Vec<Ev>>,
    pub events_enabled: std::sync::atomic::AtomicBool,
    pub copies: Mutex<Vec<(usize, usize)>>,
    pub oom_calls: AtomicU64,
    pub block_calls: AtomicU64,
    pub stop_calls: AtomicU64,
    pub resume_calls: AtomicU64,
    pub gc_count: AtomicU64,
    pub workers: Mutex<Vec<(usize, std::thread::JoinHandle<()>)>>,
    pub spawned: AtomicU64,
    pub weak: Mutex<WeakState>,
    pub ref_offset: AtomicUsize,
    pub copy_spin: AtomicUsize,
    pub scan_calls: AtomicU64,
    pub copy_calls: AtomicU64,
    pub rescan_calls: AtomicU64,
    pub live_mutators: AtomicUsize,
    /// set when a pause was an emergency collection (soft references are not retained then)
    pub emergency_seen: std::sync::atomic::AtomicBool,
    /// non-zero while the driver is inside an `alloc_with_options` call: (sequence number << 1) | 1
    pub in_alloc_call: AtomicU64,
    /// pseudo option `__scan_delay` (microseconds): `scan_object` calls made while mutators are running
    /// (i.e. by concurrent marking packets) stall this long, so that marking overlaps with mutator ops
    pub scan_delay_us: AtomicUsize,
    /// scheduler state mirrored from the event log for the quiescence watchdog (C14)
    pub sch_parked: AtomicUsize,
    pub sch_total: AtomicUsize,
    pub sch_requests: AtomicUsize,
    pub sch_current: AtomicUsize,
    pub sch_last_event_ms: AtomicU64,
    /// ask the next stop-the-world pause to call prepare_to_fork() from inside stop_all_mutators
    pub fork_in_next_gc: std::sync::atomic::AtomicBool,
    pub fork_requested_in_gc: AtomicU64,
    pub mutators_running: std::sync::atomic::AtomicBool,
    /// human-readable description of that call (for the watchdog's verdict)
    pub alloc_call_desc: Mutex<String>,
    /// pseudo option `__vm_packets`: during every pause the binding adds work packets of its own
    /// (through `memory_manager::add_work_packet`) to later stop-the-world stages, incl. the last one
    pub vm_packets: std::sync::atomic::AtomicBool,
    pub vm_packets_added: AtomicU64,
    pub vm_packets_run: AtomicU64,
    /// identity (address of the shared part) -> ordinal of every worker ever handed to spawn_gc_thread
    pub worker_idents: Mutex<Vec<(usize, usize)>>,
    pub worker_ident_violation: Mutex<Option<String>>,
    /// racing user GC requests (C11): number of helper threads currently inside block_for_gc
    pub helpers_blocked: AtomicUsize,
}

fn new_roots<const N: usize>() -> Box<[AtomicUsize; N]> {
    Box::new(std::array::from_fn(|_| AtomicUsize::new(0)))
}

pub static GLOBALS: std::sync::OnceLock<Globals> = std::sync::OnceLock::new();

pub fn g() -> &'static Globals {
    GLOBALS.get_or_init(|| Globals {
        mmtk: AtomicUsize::new(0),
        sync: Mutex::new(SyncState::default()),
        cv: Condvar::new(),
        mutators: Mutex::new(Vec::new()),
        global_roots: new_roots::<GLOBAL_ROOTS>(),
        events: Mutex::new(Vec::new()),
        events_enabled: std::sync::atomic::AtomicBool::new(false),
        copies: Mutex::new(Vec::new()),
        oom_calls: AtomicU64::new(0),
        block_calls: AtomicU64::new(0),
        stop_calls: AtomicU64::new(0),
        resume_calls: AtomicU64::new(0),
        gc_count: AtomicU64::new(0),
        workers: Mutex::new(Vec::new()),
        spawned: AtomicU64::new(0),
        weak: Mutex::new(WeakState {
            ephemerons: vec![],
            rounds_this_gc: 0,
            rets_this_gc: vec![],
            forward_calls_this_gc: 0,
            forward_after_process: true,
            post_forwarding_this_gc: 0,
            enqueued: vec![],
            probe_addrs: vec![],
            probe_reachable: vec![],
            probed: false,
            traced_last_round: vec![],
            closure_violation: None,
            dropped: vec![],
        }),
        ref_offset: AtomicUsize::new(0),
        copy_spin: AtomicUsize::new(0),
        scan_calls: AtomicU64::new(0),
        copy_calls: AtomicU64::new(0),
        rescan_calls: AtomicU64::new(0),
        live_mutators: AtomicUsize::new(0),
        emergency_seen: std::sync::atomic::AtomicBool::new(false),
        in_alloc_call: AtomicU64::new(0),
        scan_delay_us: AtomicUsize::new(0),
        sch_parked: AtomicUsize::new(0),
        sch_total: AtomicUsize::new(0),
        sch_requests: AtomicUsize::new(0),
        sch_current: AtomicUsize::new(0),
        sch_last_event_ms: AtomicU64::new(0),
        fork_in_next_gc: std::sync::atomic::AtomicBool::new(false),
        fork_requested_in_gc: AtomicU64::new(0),
        mutators_running: std::sync::atomic::AtomicBool::new(true),
        alloc_call_desc: Mutex::new(String::new()),
        vm_packets: std::sync::atomic::AtomicBool::new(false),
        vm_packets_added: AtomicU64::new(0),
        vm_packets_run: AtomicU64::new(0),
        worker_idents: Mutex::new(Vec::new()),
        worker_ident_violation: Mutex::new(None),
        helpers_blocked: AtomicUsize::new(0),
    })
}

pub fn ev(e: Ev) {
    let gl = g();
    if gl.events_enabled.load(Ordering::Relaxed) {
        gl.events.lock().unwrap().push(e);
    }
}

pub fn mmtk_ref<const V: usize>() -> &'static MMTK<ShadowVM<V>> {
    let p = g().mmtk.load(Ordering::Acquire);
    assert!(p != 0, "mmtk not initialised");
    unsafe { &*(p as *const MMTK<ShadowVM<V>>) }
}

pub fn worker_ordinal(tls: VMWorkerThread) -> usize {
    tls.0 .0.to_address().as_usize().wrapping_sub(0x1000)
}

pub fn mutator_tls(i: usize) -> VMMutatorThread {
    VMMutatorThread(VMThread(OpaquePointer::from_address(unsafe { Address::from_usize((i + 1) * 8) })))
}

pub fn mutator_index(tls: VMThread) -> usize {
    tls.0.to_address().as_usize() / 8 - 1
}

// ---------------------------------------------------------------- ObjectModel

use mmtk::vm::{VMGlobalLogBitSpec, VMLocalForwardingBitsSpec, VMLocalForwardingPointerSpec, VMLocalLOSMarkNurserySpec, VMLocalMarkBitSpec, VMLocalPinningBitSpec};

const fn log_spec(v: usize) -> VMGlobalLogBitSpec {
    match variant(v).layout {
        Layout::HeaderHeavy => VMGlobalLogBitSpec::in_header(64),
        _ => VMGlobalLogBitSpec::side_first(),
    }
}
const fn fwd_ptr_spec(_v: usize) -> VMLocalForwardingPointerSpec {
    VMLocalForwardingPointerSpec::in_header(0)
}
const fn fwd_bits_spec(v: usize) -> VMLocalForwardingBitsSpec {
    match variant(v).layout {
        Layout::AllSide => VMLocalForwardingBitsSpec::side_first(),
        Layout::AllSidePermuted => VMLocalForwardingBitsSpec::side_after(los_spec(v).as_spec()),
        Layout::FwdHeader | Layout::HeaderHeavy => VMLocalForwardingBitsSpec::in_header(0),
    }
}
const fn mark_spec(v: usize) -> VMLocalMarkBitSpec {
    match variant(v).layout {
        Layout::AllSide => VMLocalMarkBitSpec::side_after(fwd_bits_spec(v).as_spec()),
        Layout::AllSidePermuted => VMLocalMarkBitSpec::side_first(),
        Layout::FwdHeader | Layout::HeaderHeavy => VMLocalMarkBitSpec::side_first(),
    }
}
const fn pin_spec(v: usize) -> VMLocalPinningBitSpec {
    match variant(v).layout {
        Layout::AllSide | Layout::AllSidePermuted | Layout::FwdHeader => VMLocalPinningBitSpec::side_after(mark_spec(v).as_spec()),
        Layout::HeaderHeavy => VMLocalPinningBitSpec::in_header(65),
    }
}
const fn los_spec(v: usize) -> VMLocalLOSMarkNurserySpec {
    match variant(v).layout {
        Layout::AllSide | Layout::AllSidePermuted | Layout::FwdHeader => VMLocalLOSMarkNurserySpec::side_after(pin_spec(v).as_spec()),
        Layout::HeaderHeavy => VMLocalLOSMarkNurserySpec::in_header(66),
    }
}

impl<const V: usize> ObjectModel<ShadowVM<V>> for ShadowVM<V> {
    const GLOBAL_LOG_BIT_SPEC: VMGlobalLogBitSpec = log_spec(V);
    const LOCAL_FORWARDING_POINTER_SPEC: VMLocalForwardingPointerSpec = fwd_ptr_spec(V);
    const LOCAL_FORWARDING_BITS_SPEC: VMLocalForwardingBitsSpec = fwd_bits_spec(V);
    const LOCAL_MARK_BIT_SPEC: VMLocalMarkBitSpec = mark_spec(V);
    const LOCAL_PINNING_BIT_SPEC: VMLocalPinningBitSpec = pin_spec(V);
    const LOCAL_LOS_MARK_NURSERY_SPEC: VMLocalLOSMarkNurserySpec = los_spec(V);

    const OBJECT_REF_OFFSET_LOWER_BOUND: isize = variant(V).ref_offset as isize;
    const UNIFIED_OBJECT_REFERENCE_ADDRESS: bool = variant(V).ref_offset == 0;

    fn copy(from: ObjectReference, semantics: CopySemantics, copy_context: &mut GCWorkerCopyContext<ShadowVM<V>>) -> ObjectReference {
        let ro = variant(V).ref_offset;
        let from_start = from.to_raw_address().as_usize() - ro;
        let raw = RawObj { start: from_start };
        let bytes = raw.size();
        let (align, offset) = decode_align(raw.align_code());
        g().copy_calls.fetch_add(1, Ordering::Relaxed);
        let dst = copy_context.alloc_copy(from, bytes, align, offset, semantics);
        assert!(!dst.is_zero(), "alloc_copy returned zero");
        let spin = g().copy_spin.load(Ordering::Relaxed);
        for _ in 0..spin {
            std::hint::spin_loop();
        }
        unsafe {
            std::ptr::copy_nonoverlapping(from_start as *const u8, dst.as_usize() as *mut u8, bytes);
            // the GC words of the new copy start out clean
            *(dst.as_usize() as *mut u64) = 0;
        }
        let to_obj = ObjectReference::from_raw_address(dst + ro).unwrap();
        copy_context.post_copy(to_obj, bytes, semantics);
        g().copies.lock().unwrap().push((from.to_raw_address().as_usize(), to_obj.to_raw_address().as_usize()));
        to_obj
    }

    fn copy_to(from: ObjectReference, to: ObjectReference, region: Address) -> Address {
        let ro = variant(V).ref_offset;
        let from_start = from.to_raw_address().as_usize() - ro;
        let to_start = to.to_raw_address().as_usize() - ro;
        let bytes = RawObj { start: from_start }.size();
        if from_start != to_start {
            unsafe {
                std::ptr::copy(from_start as *const u8, to_start as *mut u8, bytes);
            }
            g().copy_calls.fetch_add(1, Ordering::Relaxed);
            g().copies.lock().unwrap().push((from.to_raw_address().as_usize(), to.to_raw_address().as_usize()));
        }
        let end = unsafe { Address::from_usize(to_start + bytes) };
        if !region.is_zero() {
            let fill_start = region;
            if end > fill_start {
                // nothing: the object already covers it
            } else {
                mmtk::util::alloc::fill_alignment_gap::<ShadowVM<V>>(fill_start, unsafe { Address::from_usize(to_start) });
            }
        }
        end
    }

    fn get_reference_when_copied_to(_from: ObjectReference, to: Address) -> ObjectReference {
        ObjectReference::from_raw_address(to + variant(V).ref_offset).unwrap()
    }

    fn get_current_size(object: ObjectReference) -> usize {
        RawObj { start: object.to_raw_address().as_usize() - variant(V).ref_offset }.size()
    }

    fn get_size_when_copied(object: ObjectReference) -> usize {
        Self::get_current_size(object)
    }

    fn get_align_when_copied(object: ObjectReference) -> usize {
        decode_align(RawObj { start: object.to_raw_address().as_usize() - variant(V).ref_offset }.align_code()).0
    }

    fn get_align_offset_when_copied(object: ObjectReference) -> usize {
        decode_align(RawObj { start: object.to_raw_address().as_usize() - variant(V).ref_offset }.align_code()).1
    }

    fn get_type_descriptor(_reference: ObjectReference) -> &'static [i8] {
        &[]
    }

    fn ref_to_object_start(object: ObjectReference) -> Address {
        object.to_raw_address() - variant(V).ref_offset
    }

    fn ref_to_header(object: ObjectReference) -> Address {
        object.to_raw_address() - variant(V).ref_offset
    }

    fn dump_object(object: ObjectReference) {
        let r = RawObj { start: object.to_raw_address().as_usize() - variant(V).ref_offset };
        eprintln!("object {:?}: id={} size={} nrefs={} kind={}", object, r.id(), r.size(), r.nrefs(), r.kind());
    }
}

// ---------------------------------------------------------------- Scanning

fn concurrent_scan_delay() {
    let gl = g();
    let d = gl.scan_delay_us.load(Ordering::Relaxed);
    if d > 0 && gl.mutators_running.load(Ordering::Relaxed) {
        std::thread::sleep(std::time::Duration::from_micros(d as u64));
    }
}

fn is_reference_kind(k: u8) -> bool {
    k == KIND_SOFT || k == KIND_WEAK || k == KIND_PHANTOM
}

impl<const V: usize> Scanning<ShadowVM<V>> for ShadowVM<V> {
    fn support_slot_enqueuing(_tls: VMWorkerThread, object: ObjectReference) -> bool {
        let r = RawObj { start: object.to_raw_address().as_usize() - variant(V).ref_offset };
        r.kind() != KIND_NODE
    }

    fn scan_object<SV: SlotVisitor<SimpleSlot>>(_tls: VMWorkerThread, object: ObjectReference, slot_visitor: &mut SV) {
        g().scan_calls.fetch_add(1, Ordering::Relaxed);
        concurrent_scan_delay();
        let r = RawObj { start: object.to_raw_address().as_usize() - variant(V).ref_offset };
        let n = r.nrefs();
        let first = if is_reference_kind(r.kind()) { 1 } else { 0 };
        if std::env::var("VH_DEBUG_SCAN").is_ok() {
            for i in first..n {
                let v = r.slot(i);
                if v % 8 != 0 {
                    eprintln!("scan_object({:?}): id={} size={} nrefs={} kind={} slot {} = {:#x} space={}", object, r.id(), r.size(), n, r.kind(), i, v, mmtk::verif::space_name_of(object.to_raw_address()));
                }
            }
        }
        for i in first..n {
            slot_visitor.visit_slot(SimpleSlot::from_address(unsafe { Address::from_usize(r.slot_addr(i)) }));
        }
    }

    fn scan_object_and_trace_edges<OT: ObjectTracer>(_tls: VMWorkerThread, object: ObjectReference, object_tracer: &mut OT) {
        g().scan_calls.fetch_add(1, Ordering::Relaxed);
        concurrent_scan_delay();
        let r = RawObj { start: object.to_raw_address().as_usize() - variant(V).ref_offset };
        let n = r.nrefs();
        let first = if is_reference_kind(r.kind()) { 1 } else { 0 };
        for i in first..n {
            let v = r.slot(i);
            if v != 0 {
                let o = ObjectReference::from_raw_address(unsafe { Address::from_usize(v) }).unwrap();
                let n = object_tracer.trace_object(o);
                if n != o {
                    r.set_slot(i, n.to_raw_address().as_usize());
                }
            }
        }
    }

    fn notify_initial_thread_scan_complete(_partial_scan: bool, _tls: VMWorkerThread) {}

    fn scan_roots_in_mutator_thread(tls: VMWorkerThread, mutator: &'static mut Mutator<ShadowVM<V>>, mut factory: impl RootsWorkFactory<SimpleSlot>) {
        let m = mutator_index(mutator.mutator_tls.0);
        ev(Ev::ScanMutator { m, worker: worker_ordinal(tls) });
        let muts = g().mutators.lock().unwrap();
        let rec = &muts[m];
        let mut slots = vec![];
        let mut pin = vec![];
        let mut tpin = vec![];
        for i in 0..ROOTS_PER_MUTATOR {
            let v = rec.roots[i].load(Ordering::Relaxed);
            match rec.root_kind[i].load(Ordering::Relaxed) {
                0 => slots.push(SimpleSlot::from_address(Address::from_ref(&rec.roots[i]))),
                1 => {
                    if v != 0 {
                        pin.push(ObjectReference::from_raw_address(unsafe { Address::from_usize(v) }).unwrap())
                    }
                }
                _ => {
                    if v != 0 {
                        tpin.push(ObjectReference::from_raw_address(unsafe { Address::from_usize(v) }).unwrap())
                    }
                }
            }
        }
        drop(muts);
        // split the slot roots into two packets so that several workers process them
        let half = slots.len() / 2;
        let second = slots.split_off(half);
        factory.create_process_roots_work(slots);
        factory.create_process_roots_work(second);
        if !pin.is_empty() {
            factory.create_process_pinning_roots_work(pin);
        }
        if !tpin.is_empty() {
            factory.create_process_tpinning_roots_work(tpin);
        }
    }

    fn scan_vm_specific_roots(_tls: VMWorkerThread, mut factory: impl RootsWorkFactory<SimpleSlot>) {
        ev(Ev::ScanVMRoots);
        let gl = g();
        let slots: Vec<SimpleSlot> = (0..GLOBAL_ROOTS).map(|i| SimpleSlot::from_address(Address::from_ref(&gl.global_roots[i]))).collect();
        factory.create_process_roots_work(slots);
        if gl.vm_packets.load(Ordering::Relaxed) {
            // a binding may add packets of its own to later stages of the running collection (C15):
            // each must be executed exactly once before the mutators resume
            use mmtk::scheduler::WorkBucketStage as S;
            let n = gl.stop_calls.load(Ordering::SeqCst);
            let mut stages = vec![S::Final];
            if n % 2 == 1 {
                stages.push(S::Release);
            }
            if n % 3 == 0 {
                stages.push(S::Closure);
                stages.push(S::Final);
            }
            for st in stages {
                gl.vm_packets_added.fetch_add(1, Ordering::SeqCst);
                mmtk::memory_manager::add_work_packet(mmtk_ref::<V>(), st, VmPacket);
            }
        }
    }

    fn supports_return_barrier() -> bool {
        false
    }

    fn prepare_for_roots_re_scanning() {
        g().rescan_calls.fetch_add(1, Ordering::Relaxed);
        ev(Ev::PrepareRescan);
    }

    fn process_weak_refs(worker: &mut mmtk::scheduler::GCWorker<ShadowVM<V>>, tracer_context: impl ObjectTracerContext<ShadowVM<V>>) -> bool {
        super::weak::process_weak_refs::<V>(worker, tracer_context)
    }

    fn forward_weak_refs(worker: &mut mmtk::scheduler::GCWorker<ShadowVM<V>>, tracer_context: impl ObjectTracerContext<ShadowVM<V>>) {
        super::weak::forward_weak_refs::<V>(worker, tracer_context)
    }
}

/// A work packet owned by the binding (see `__vm_packets`).
pub struct VmPacket;

impl<const V: usize> mmtk::scheduler::GCWork<ShadowVM<V>> for VmPacket {
    fn do_work(&mut self, _worker: &mut mmtk::scheduler::GCWorker<ShadowVM<V>>, _mmtk: &'static MMTK<ShadowVM<V>>) {
        g().vm_packets_run.fetch_add(1, Ordering::SeqCst);
    }
}

thread_local! {
    /// set in helper threads that issue racing user GC requests on behalf of idle mutators (C11)
    pub static IS_GC_REQUEST_HELPER: std::cell::Cell<bool> = const { std::cell::Cell::new(false) };
}

// ---------------------------------------------------------------- Collection

impl<const V: usize> Collection<ShadowVM<V>> for ShadowVM<V> {
    fn stop_all_mutators<F>(tls: VMWorkerThread, mut mutator_visitor: F)
    where
        F: FnMut(&'static mut Mutator<ShadowVM<V>>),
    {
        let gl = g();
        gl.stop_calls.fetch_add(1, Ordering::SeqCst);
        ev(Ev::AtStop { scans: gl.scan_calls.load(Ordering::SeqCst), copies: gl.copy_calls.load(Ordering::SeqCst) });
        ev(Ev::Stop { worker: worker_ordinal(tls) });
        {
            let mut st = gl.sync.lock().unwrap();
            st.stop_requested = true;
            st.stop_epoch += 1;
            gl.cv.notify_all();
            while !st.driver_parked {
                st = gl.cv.wait(st).unwrap();
            }
        }
        gl.mutators_running.store(false, Ordering::SeqCst);
        ev(Ev::Stopped);
        let ptrs: Vec<usize> = gl.mutators.lock().unwrap().iter().map(|m| m.ptr).filter(|p| *p != 0).collect();
        for p in ptrs {
            mutator_visitor(unsafe { &mut *(p as *mut Mutator<ShadowVM<V>>) });
        }
        if gl.fork_in_next_gc.swap(false, Ordering::SeqCst) {
            // a VM thread asks the GC threads to stop for fork() while this collection is in progress
            mmtk_ref::<V>().prepare_to_fork();
            gl.fork_requested_in_gc.fetch_add(1, Ordering::SeqCst);
        }
    }

    fn resume_mutators(tls: VMWorkerThread) {
        let gl = g();
        gl.resume_calls.fetch_add(1, Ordering::SeqCst);
        gl.gc_count.fetch_add(1, Ordering::SeqCst);
        if mmtk_ref::<V>().is_emergency_collection() {
            gl.emergency_seen.store(true, Ordering::SeqCst);
        }
        ev(Ev::AtResume { buckets: mmtk::verif::events::bucket_states(mmtk_ref::<V>()), scans: gl.scan_calls.load(Ordering::SeqCst), copies: gl.copy_calls.load(Ordering::SeqCst) });
        ev(Ev::Resume { worker: worker_ordinal(tls) });
        gl.mutators_running.store(true, Ordering::SeqCst);
        let mut st = gl.sync.lock().unwrap();
        st.stop_requested = false;
        st.resume_epoch += 1;
        gl.cv.notify_all();
    }

    fn block_for_gc(tls: VMMutatorThread) {
        let gl = g();
        gl.block_calls.fetch_add(1, Ordering::SeqCst);
        let m = mutator_index(tls.0);
        if IS_GC_REQUEST_HELPER.with(|h| h.get()) {
            // not the driver thread: just wait for the end of the pause, without telling the
            // collector that the (still running) driver has stopped
            let mut st = gl.sync.lock().unwrap();
            let entry = st.resume_epoch;
            gl.helpers_blocked.fetch_add(1, Ordering::SeqCst);
            while st.resume_epoch == entry {
                st = gl.cv.wait(st).unwrap();
            }
            gl.helpers_blocked.fetch_sub(1, Ordering::SeqCst);
            return;
        }
        ev(Ev::BlockEnter { m });
        let mut st = gl.sync.lock().unwrap();
        let entry = st.resume_epoch;
        st.driver_parked = true;
        gl.cv.notify_all();
        while st.resume_epoch == entry {
            st = gl.cv.wait(st).unwrap();
        }
        // if a new pause was requested immediately, stay parked for it as well
        while st.stop_requested {
            st = gl.cv.wait(st).unwrap();
        }
        st.driver_parked = false;
        drop(st);
        ev(Ev::BlockExit { m });
    }

    fn spawn_gc_thread(_tls: VMThread, ctx: GCThreadContext<ShadowVM<V>>) {
        let gl = g();
        match ctx {
            GCThreadContext::Worker(worker) => {
                let ordinal = worker.ordinal;
                {
                    // C16: a worker handed back after a fork is the same worker: same shared part, same ordinal
                    let ident = std::sync::Arc::as_ptr(&worker.shared) as usize;
                    let mut ids = gl.worker_idents.lock().unwrap();
                    if let Some((_, o)) = ids.iter().find(|(i, _)| *i == ident) {
                        if *o != ordinal {
                            *gl.worker_ident_violation.lock().unwrap() = Some(format!("the worker whose shared state is at {:#x} was created with ordinal {} and respawned with ordinal {}", ident, o, ordinal));
                        }
                    } else if let Some((i, _)) = ids.iter().find(|(_, o)| *o == ordinal) {
                        *gl.worker_ident_violation.lock().unwrap() = Some(format!("ordinal {} was created with the shared state at {:#x} and respawned with the shared state at {:#x}", ordinal, i, ident));
                    } else {
                        ids.push((ident, ordinal));
                    }
                }
                gl.spawned.fetch_add(1, Ordering::SeqCst);
                ev(Ev::SpawnWorker { ordinal });
                let h = std::thread::Builder::new()
                    .name(format!("gcworker-{}", ordinal))
                    .spawn(move || {
                        let tls = VMWorkerThread(VMThread(OpaquePointer::from_address(unsafe { Address::from_usize(0x1000 + ordinal) })));
                        let mmtk = mmtk_ref::<V>();
                        mmtk::memory_manager::start_worker(mmtk, tls, worker);
                        ev(Ev::WorkerExit { ordinal });
                    })
                    .unwrap();
                gl.workers.lock().unwrap().push((ordinal, h));
            }
        }
    }

    fn out_of_memory(_tls: VMThread, err_kind: AllocationError) {
        let gl = g();
        gl.oom_calls.fetch_add(1, Ordering::SeqCst);
        ev(Ev::Oom { kind: match err_kind { AllocationError::HeapOutOfMemory => 0, AllocationError::MmapOutOfMemory => 1 } });
    }

    fn post_forwarding(_tls: VMWorkerThread) {
        g().weak.lock().unwrap().post_forwarding_this_gc += 1;
        ev(Ev::PostForwarding);
    }
}

/// Safepoint poll for the (single) driver thread: park while a pause is requested.
pub fn safepoint() {
    let gl = g();
    let mut st = gl.sync.lock().unwrap();
    if st.stop_requested {
        st.driver_parked = true;
        gl.cv.notify_all();
        while st.stop_requested {
            st = gl.cv.wait(st).unwrap();
        }
        st.driver_parked = false;
    }
}

// ---------------------------------------------------------------- ActivePlan

impl<const V: usize> ActivePlan<ShadowVM<V>> for ShadowVM<V> {
    fn is_mutator(tls: VMThread) -> bool {
        let a = tls.0.to_address().as_usize();
        a != 0 && a < 0x1000
    }

    fn mutator(tls: VMMutatorThread) -> &'static mut Mutator<ShadowVM<V>> {
        let m = mutator_index(tls.0);
        let p = g().mutators.lock().unwrap()[m].ptr;
        assert!(p != 0);
        unsafe { &mut *(p as *mut Mutator<ShadowVM<V>>) }
    }

    fn mutators<'a>() -> Box<dyn Iterator<Item = &'a mut Mutator<ShadowVM<V>>> + 'a> {
        let ptrs: Vec<usize> = g().mutators.lock().unwrap().iter().map(|m| m.ptr).filter(|p| *p != 0).collect();
        Box::new(ptrs.into_iter().map(|p| unsafe { &mut *(p as *mut Mutator<ShadowVM<V>>) }))
    }

    fn number_of_mutators() -> usize {
        g().mutators.lock().unwrap().iter().filter(|m| m.ptr != 0).count()
    }
}

// ---------------------------------------------------------------- ReferenceGlue

impl<const V: usize> ReferenceGlue<ShadowVM<V>> for ShadowVM<V> {
    type FinalizableType = ObjectReference;

    fn clear_referent(new_reference: ObjectReference) {
        let r = RawObj { start: new_reference.to_raw_address().as_usize() - variant(V).ref_offset };
        r.set_slot(0, 0);
    }

    fn get_referent(object: ObjectReference) -> Option<ObjectReference> {
        let r = RawObj { start: object.to_raw_address().as_usize() - variant(V).ref_offset };
        let v = r.slot(0);
        ObjectReference::from_raw_address(unsafe { Address::from_usize(v) })
    }

    fn set_referent(reff: ObjectReference, referent: ObjectReference) {
        let r = RawObj { start: reff.to_raw_address().as_usize() - variant(V).ref_offset };
        r.set_slot(0, referent.to_raw_address().as_usize());
    }

    fn enqueue_references(references: &[ObjectReference], _tls: VMWorkerThread) {
        let mut w = g().weak.lock().unwrap();
        for r in references {
            let raw = RawObj { start: r.to_raw_address().as_usize() - variant(V).ref_offset };
            w.enqueued.push((r.to_raw_address().as_usize(), raw.slot(0)));
        }
    }
}

pub fn new_mutator_rec() -> MutatorRec {
    MutatorRec { ptr: 0, roots: new_roots::<ROOTS_PER_MUTATOR>(), root_kind: new_roots::<ROOTS_PER_MUTATOR>() }
}

pub fn slot_of(addr: usize) -> SimpleSlot {
    SimpleSlot::from_address(unsafe { Address::from_usize(addr) })
}

pub fn load_slot(s: SimpleSlot) -> Option<ObjectReference> {
    s.load()
}
