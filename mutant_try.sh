#!/bin/bash
# usage: mutant_try.sh <patch-file> <check-id>...   (applies a -p1 patch to /repo, runs quick checks without touching evidence, reverts)
p=$1; shift
if ! git -C /repo diff --quiet || [ -n "$(git -C /repo status --short)" ]; then echo "/repo not clean"; exit 2; fi
(cd /repo && patch -p1 --no-backup-if-mismatch < $p >/dev/null) || { echo "patch failed"; git -C /repo checkout -- .; exit 2; }
export VERIF_NO_EVIDENCE=1 VERIF_REPLAY_DIR=/tmp/mutant-replays; mkdir -p $VERIF_REPLAY_DIR
for c in "$@"; do /verif/check $c --tier quick 2>&1 | grep -v conda | grep "failure\|^check\|VIOLATION\|INCONCL" | cut -c1-300; done
git -C /repo checkout -- .; git -C /repo status --short
