//! One function per property: `fn(&mut Check)`.

pub mod e1checks;
pub mod unit_a;
pub mod unit_b;
pub mod unit_c;
pub mod unit_d;
pub mod unit_e;

use crate::runner::{Check, Tier};

pub struct Entry {
    pub id: &'static str,
    pub rule: &'static str,
    pub run: fn(&mut Check),
}

pub fn registry() -> Vec<Entry> {
    let mut v = vec![];
    v.extend(e1checks::entries());
    v.extend(unit_a::entries());
    v.extend(unit_b::entries());
    v.extend(unit_c::entries());
    v.extend(unit_d::entries());
    v.extend(unit_e::entries());
    v
}

pub fn run(id: &str, tier: Tier, replay: Option<String>, shard: Option<(String, usize, usize)>) -> i32 {
    let reg = registry();
    let Some(e) = reg.iter().find(|e| e.id == id) else {
        eprintln!("unknown check {}", id);
        return 2;
    };
    let mut c = Check::new(id, tier, e.rule);
    c.replay = replay;
    c.shard = shard;
    (e.run)(&mut c);
    c.finish()
}
