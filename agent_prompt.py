#!/usr/bin/env python3
"""Prints the prompt handed to a mutant-writing sub-agent for property <id> (only the property text + its worktree)."""
import json,sys
pid=sys.argv[1]
n=sys.argv[2] if len(sys.argv)>2 else pid
for l in open('/verif/properties.jsonl'):
    p=json.loads(l)
    if p['id']==pid: break
wt=f"/tmp/wt-{n}"
print(f"""You are working on a scratch git worktree of the Rust project mmtk-core (a garbage-collection framework: GC plans, space policies, allocators, side metadata, a work-packet scheduler) at {wt}. Work ONLY inside {wt}. Do not read or write anything under /verif or /repo, and do not look at other /tmp/wt-* directories.

Here is a semantic property that the library is supposed to satisfy:

  Title: {p['title']}
  Statement: {p['statement']}
  Quantified over: {p['quantifier']['text']}

Your task: write a small, realistic change to the library source under {wt}/src that BREAKS this property while
  (a) the crate still compiles, and
  (b) the existing test suite still passes, unedited: run  cd {wt} && CARGO_TARGET_DIR={wt}/target cargo test --workspace --no-fail-fast --offline  (about 2-3 minutes the first time; there is no network, everything needed is cached; exactly one test, test_side_metadata_sanity_verify_no_overlap_contiguous, fails on the unmodified tree too - ignore it; doc-tests are not part of the suite).
The change should look like a bug a maintainer could plausibly introduce (an off-by-one, a wrong comparison, a dropped update or barrier, swapped arguments, a missing check, a wrong ordering, a stale value), and it must be SUBTLE: it should need something specific to manifest - a particular multi-step sequence of operations, an unusual input or size, a particular plan/configuration, a particular thread interleaving, a fault at a particular point, or two cooperating code sites that each look fine alone - and must NOT be something that ordinary use exposes at once (e.g. not 'every allocation fails' or 'every GC crashes'). Prefer silent wrong behaviour over panics. Do not edit tests, Cargo features, src/verif.rs or any code guarded by cfg(mmtk_verif) (those are read-only instrumentation), and do not add new cfg flags.

Also produce a demonstration that fails with your change and passes without it: a Rust test (e.g. a new file you add under {wt}/tests/ or a #[test] in a new module) or a small program. For properties about whole collections a full VM binding is hard to write; in that case a focused test that drives the changed component directly (or a MockVM-based test under the `mock_test` feature, see src/vm/tests/mock_tests) and shows the wrong result is acceptable, together with a precise description of the user-level scenario (plan, options, sequence of operations) in which the property is violated.

Deliver, inside {wt}:
  - the source change left applied in the working tree (do NOT commit),
  - {wt}/MUTANT.md with: which file/lines changed and why it breaks the property; exactly what is needed for it to manifest (plan, options, sizes, sequence, interleaving); how to run the demonstration and what it prints with and without the change; confirmation that you ran the existing test suite with the change and it passed (paste the summary lines),
  - the demonstration file(s).
Be economical: read only the code relevant to the property, make ONE good change (not several), and finish. In your final answer give a 10-line summary (changed file, what it needs to manifest, demo command).""")
