//! Oracles over the merged VM-callback + scheduler event log (C11, C15, parts of C14/C16).
//!
//! The log is totally ordered (one mutex), and every event is emitted by the thread that performs
//! the action, so program order per thread and lock order of the worker monitor are preserved.

use super::vm::Ev;
use std::collections::HashMap;

pub struct Violation {
    pub property: &'static str,
    pub signature: &'static str,
    pub detail: String,
}

#[derive(PartialEq, Eq, Clone, Copy, Debug)]
enum Phase {
    /// mutators running (or being stopped): no stop-the-world packet may run
    Running,
    /// between `Stopped` (all mutators parked) and `Resume`
    Paused,
}

pub struct SchedCheck {
    n_workers: usize,
    stage_names: Vec<String>,
    stage_is_stw: Vec<bool>,
    prepare_stage: usize,
    concurrent_plan: bool,
    phase: Phase,
    /// stop_all_mutators entered for the pause in progress (between Stop and Resume)
    stop_seen: bool,
    parked: Vec<bool>,
    running: Vec<Option<&'static str>>,
    /// packets added to stop-the-world buckets and not yet started, by type name
    stw_pending: HashMap<&'static str, i64>,
    /// packets added to Unconstrained / Concurrent / designated queues and not yet started
    other_pending: HashMap<&'static str, i64>,
    last_stw_opened: Option<usize>,
    pending_update_open: Option<usize>,
    scans_per_mutator: HashMap<usize, u32>,
    rescans: u32,
    bound_mutators: Vec<usize>,
    last_resume_counters: Option<(u64, u64)>,
    pub pauses: u64,
    pub stw_packets: u64,
    pub buckets_opened_by_update: u64,
    pub opened_with_late_packets: u64,
    pub max_parallel: usize,
    added_since_pause_start: HashMap<usize, u64>,
    surrendered: Vec<usize>,
}

impl SchedCheck {
    pub fn new(n_workers: usize, concurrent_plan: bool) -> Self {
        let stages = mmtk::verif::events::stages();
        let prepare_stage = stages.iter().find(|(_, n, _)| n == "Prepare").map(|(i, _, _)| *i).unwrap_or(2);
        SchedCheck {
            n_workers,
            stage_names: stages.iter().map(|(_, n, _)| n.clone()).collect(),
            stage_is_stw: stages.iter().map(|(_, _, s)| *s).collect(),
            prepare_stage,
            concurrent_plan,
            phase: Phase::Running,
            stop_seen: false,
            parked: vec![false; n_workers],
            running: vec![None; n_workers],
            stw_pending: HashMap::new(),
            other_pending: HashMap::new(),
            last_stw_opened: None,
            pending_update_open: None,
            scans_per_mutator: HashMap::new(),
            rescans: 0,
            bound_mutators: vec![],
            last_resume_counters: None,
            pauses: 0,
            stw_packets: 0,
            buckets_opened_by_update: 0,
            opened_with_late_packets: 0,
            max_parallel: 0,
            added_since_pause_start: HashMap::new(),
            surrendered: vec![],
        }
    }

    pub fn set_bound_mutators(&mut self, m: Vec<usize>) {
        self.bound_mutators = m;
    }

    fn stage_name(&self, s: usize) -> String {
        self.stage_names.get(s).cloned().unwrap_or_else(|| "designated".to_string())
    }

    fn is_stw(&self, s: usize) -> bool {
        self.stage_is_stw.get(s).copied().unwrap_or(false)
    }

    fn v(p: &'static str, s: &'static str, d: String) -> Option<Violation> {
        Some(Violation { property: p, signature: s, detail: d })
    }

    pub fn feed(&mut self, e: &Ev) -> Option<Violation> {
        match e {
            Ev::PacketAdd { stage, name, .. } => {
                if self.is_stw(*stage) {
                    *self.stw_pending.entry(name).or_insert(0) += 1;
                    *self.added_since_pause_start.entry(*stage).or_insert(0) += 1;
                } else {
                    *self.other_pending.entry(name).or_insert(0) += 1;
                }
            }
            Ev::PacketStart { worker, name } => {
                if *worker < self.n_workers {
                    if let Some(prev) = self.running[*worker] {
                        return Self::v("C15", "packet-start-while-running", format!("worker {} started packet {} while its packet {} had not ended", worker, name, prev));
                    }
                    self.running[*worker] = Some(name);
                    let par = self.running.iter().filter(|r| r.is_some()).count();
                    self.max_parallel = self.max_parallel.max(par);
                }
                let stw = match self.stw_pending.get_mut(name) {
                    Some(n) if *n > 0 => {
                        *n -= 1;
                        true
                    }
                    _ => false,
                };
                if stw {
                    self.stw_packets += 1;
                    if self.phase != Phase::Paused {
                        return Self::v("C11", "stw-packet-outside-pause", format!("stop-the-world packet {} started on worker {} while mutators were not stopped (no stop_all_mutators..resume_mutators bracket is open)", name, worker));
                    }
                } else {
                    match self.other_pending.get_mut(name) {
                        Some(n) if *n > 0 => *n -= 1,
                        _ => {
                            return Self::v("C15", "packet-start-without-add", format!("packet {} started on worker {} but no unstarted packet of that type had been added (executed twice?)", name, worker));
                        }
                    }
                }
            }
            Ev::PacketEnd { worker, .. } => {
                if *worker < self.n_workers {
                    self.running[*worker] = None;
                }
            }
            Ev::Park { worker, parked, total } => {
                if *worker < self.n_workers {
                    self.parked[*worker] = true;
                }
                let mine = self.parked.iter().filter(|p| **p).count();
                if *total != self.n_workers || *parked != mine {
                    return Self::v("C14", "parked-count-mismatch", format!("worker {} parked: monitor counts {}/{} parked, the event log says {}/{}", worker, parked, total, mine, self.n_workers));
                }
            }
            Ev::Unpark { worker, .. } => {
                if *worker < self.n_workers {
                    self.parked[*worker] = false;
                }
            }
            Ev::BucketOpenByUpdate { stage, earlier } => {
                self.buckets_opened_by_update += 1;
                let parked = self.parked.iter().filter(|p| **p).count();
                if parked != self.n_workers {
                    return Self::v("C15", "bucket-opened-with-unparked-worker", format!("bucket {} opened while only {}/{} workers were parked", self.stage_name(*stage), parked, self.n_workers));
                }
                if let Some((w, n)) = self.running.iter().enumerate().find_map(|(w, r)| r.map(|n| (w, n))) {
                    return Self::v("C15", "bucket-opened-while-packet-running", format!("bucket {} opened while worker {} was executing {}", self.stage_name(*stage), w, n));
                }
                for (s, enabled, open, empty) in earlier {
                    if *enabled && !(*open && *empty) {
                        return Self::v("C15", "bucket-opened-before-earlier-drained", format!("bucket {} opened while the earlier enabled bucket {} was open={} empty={}", self.stage_name(*stage), self.stage_name(*s), open, empty));
                    }
                }
                if self.added_since_pause_start.get(stage).copied().unwrap_or(0) > 0 {
                    self.opened_with_late_packets += 1;
                }
                self.pending_update_open = Some(*stage);
            }
            Ev::BucketOpen { stage } => {
                if self.is_stw(*stage) {
                    if *stage == self.prepare_stage {
                        if !self.stop_seen {
                            return Self::v("C11", "prepare-opened-before-stop", format!("bucket {} opened before stop_all_mutators was called for this collection", self.stage_name(*stage)));
                        }
                    } else if self.pending_update_open != Some(*stage) {
                        return Self::v("C15", "bucket-opened-outside-update", format!("stop-the-world bucket {} opened without its open condition having been evaluated by the last parked worker", self.stage_name(*stage)));
                    }
                    if let Some(prev) = self.last_stw_opened {
                        if *stage <= prev {
                            return Self::v("C15", "bucket-order", format!("bucket {} opened after bucket {} in the same collection", self.stage_name(*stage), self.stage_name(prev)));
                        }
                    }
                    self.last_stw_opened = Some(*stage);
                    self.pending_update_open = None;
                }
            }
            Ev::BucketClose { stage, empty } => {
                if self.is_stw(*stage) && !*empty {
                    return Self::v("C15", "bucket-closed-nonempty", format!("bucket {} closed while it still held packets", self.stage_name(*stage)));
                }
            }
            Ev::Stop { .. } => {
                if self.stop_seen {
                    return Self::v("C11", "stop-twice", "stop_all_mutators called twice without resume_mutators in between".to_string());
                }
                self.stop_seen = true;
                self.scans_per_mutator.clear();
                self.rescans = 0;
                self.last_stw_opened = None;
                self.added_since_pause_start.clear();
            }
            Ev::AtStop { scans, copies } => {
                if let Some((s0, c0)) = self.last_resume_counters {
                    if !self.concurrent_plan && (*scans != s0 || *copies != c0) {
                        return Self::v("C11", "traced-while-mutators-running", format!("objects were scanned/copied between resume_mutators and the next stop_all_mutators (scan_object calls {} -> {}, copies {} -> {})", s0, scans, c0, copies));
                    }
                    if self.concurrent_plan && *copies != c0 {
                        return Self::v("C11", "copied-while-mutators-running", format!("objects were copied while mutators were running (copies {} -> {})", c0, copies));
                    }
                }
            }
            Ev::Stopped => {
                self.phase = Phase::Paused;
            }
            Ev::ScanMutator { m, .. } => {
                if self.phase != Phase::Paused {
                    return Self::v("C11", "roots-scanned-outside-pause", format!("scan_roots_in_mutator_thread for mutator {} while mutators were not stopped", m));
                }
                *self.scans_per_mutator.entry(*m).or_insert(0) += 1;
            }
            Ev::PrepareRescan => {
                self.rescans += 1;
            }
            Ev::AtResume { buckets, scans, copies } => {
                self.last_resume_counters = Some((*scans, *copies));
                for (s, _enabled, open, empty) in buckets {
                    if self.is_stw(*s) && (*open || !*empty) {
                        return Self::v("C15", "stw-bucket-not-closed-at-resume", format!("at resume_mutators the stop-the-world bucket {} is open={} empty={}", self.stage_name(*s), open, empty));
                    }
                }
            }
            Ev::Resume { .. } => {
                if !self.stop_seen || self.phase != Phase::Paused {
                    return Self::v("C11", "resume-without-stop", "resume_mutators called without a preceding stop_all_mutators".to_string());
                }
                if let Some((w, n)) = self.running.iter().enumerate().find_map(|(w, r)| r.map(|n| (w, n))) {
                    // the resuming worker is inside park_and_wait: no packet may be executing anywhere
                    return Self::v("C11", "resume-while-packet-running", format!("resume_mutators called while worker {} was still executing {}", w, n));
                }
                if let Some((n, c)) = self.stw_pending.iter().find(|(_, c)| **c > 0) {
                    return Self::v("C15", "packet-not-executed-in-its-gc", format!("resume_mutators called while {} stop-the-world packet(s) {} added during this collection had not been executed", c, n));
                }
                // every bound mutator scanned exactly once per root-scanning round; a pause scheduled
                // without root scanning (concurrent final mark) scans none
                let rounds = 1 + self.rescans;
                let counts: Vec<(usize, u32)> = self.bound_mutators.iter().map(|m| (*m, self.scans_per_mutator.get(m).copied().unwrap_or(0))).collect();
                let all_zero = counts.iter().all(|(_, c)| *c == 0);
                if !(self.concurrent_plan && all_zero) {
                    for (m, c) in &counts {
                        if *c != rounds {
                            return Self::v("C11", "mutator-scan-count", format!("mutator {} had its roots scanned {} times in a collection with {} root-scanning round(s) (all mutators: {:?})", m, c, rounds, counts));
                        }
                    }
                }
                if let Some((m, _)) = self.scans_per_mutator.iter().find(|(m, _)| !self.bound_mutators.contains(m)) {
                    return Self::v("C11", "unknown-mutator-scanned", format!("roots of mutator {} were scanned but no such mutator is bound", m));
                }
                self.phase = Phase::Running;
                self.stop_seen = false;
                self.pauses += 1;
            }
            Ev::Surrender { ordinal, .. } => {
                if self.surrendered.contains(ordinal) {
                    return Self::v("C16", "surrendered-twice", format!("worker {} surrendered its state twice in one stop", ordinal));
                }
                self.surrendered.push(*ordinal);
            }
            Ev::SpawnWorker { ordinal } => {
                self.surrendered.retain(|o| o != ordinal);
                if *ordinal < self.n_workers {
                    self.parked[*ordinal] = false;
                    self.running[*ordinal] = None;
                }
            }
            _ => {}
        }
        None
    }

    /// At a fork point (all worker threads joined): nothing may be lost.
    pub fn at_all_workers_exited(&self) -> Option<Violation> {
        let mut ords = self.surrendered.clone();
        ords.sort();
        if ords != (0..self.n_workers).collect::<Vec<_>>() {
            return Self::v("C16", "surrender-set", format!("workers that surrendered their state: {:?}, expected 0..{}", ords, self.n_workers));
        }
        if let Some((w, n)) = self.running.iter().enumerate().find_map(|(w, r)| r.map(|n| (w, n))) {
            return Self::v("C16", "exited-while-packet-running", format!("worker {} exited while executing {}", w, n));
        }
        None
    }
}
