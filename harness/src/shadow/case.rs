//! Whole-system case: configuration + generated mutator program (pure data).

use serde::{Deserialize, Serialize};

#[derive(Serialize, Deserialize, Clone, Debug, PartialEq, Eq, Hash)]
pub enum Op {
    /// Allocate an object and store it into a root.  `extra` = payload bytes
    /// beyond header and slots (rounded up to 8).  For reference kinds
    /// (kind 1..3) `referent` names the root whose object becomes the referent.
    Alloc { m: u8, root: u8, extra: u32, nrefs: u8, kind: u8, sem: u8, align_log: u8, offset_w: u8, referent: u8 },
    /// obj(root src).field = obj(root dst) (or null), through the write barrier
    Write { m: u8, src: u8, field: u8, dm: u8, dst: u8, null: bool },
    /// root dst = obj(root src).field
    Load { m: u8, src: u8, field: u8, dst: u8 },
    CopyRoot { m: u8, from: u8, dm: u8, to: u8 },
    DropRoot { m: u8, root: u8 },
    DropAllRoots,
    /// global root slot <- root
    SetGlobal { m: u8, root: u8, g: u8 },
    DropGlobal { g: u8 },
    /// array-copy `len` slots from obj(src) starting at `si` to obj(dst) at `di` (barriered)
    RegionCopy { m: u8, src: u8, dst: u8, si: u8, di: u8, len: u8, with_obj: bool },
    Pin { m: u8, root: u8 },
    Unpin { m: u8, root: u8 },
    /// change how a root is reported: 0 slot, 1 pinning node, 2 transitively pinning node
    RootKind { m: u8, root: u8, kind: u8 },
    AddFinalizer { m: u8, root: u8 },
    /// pop up to `n` finalized objects; the first goes to `root`
    PopFinalized { m: u8, root: u8, n: u8 },
    AddEphemeron { m: u8, key: u8, val: u8 },
    ClearReferent { m: u8, root: u8 },
    GetReferent { m: u8, src: u8, dst: u8 },
    Gc { m: u8, force: bool, exhaustive: bool },
    /// allocate-and-drop `kb` KiB of small objects to provoke natural GCs
    Churn { m: u8, kb: u16, size: u16 },
    /// allocation with explicit options (C10)
    AllocOpts { m: u8, root: u8, size_class: u8, sem: u8, overcommit: bool, at_safepoint: bool, allow_oom: bool },
    BindMutator { m: u8 },
    DestroyMutator { m: u8 },
    /// prepare_to_fork, join all workers, after_fork
    ForkCycle,
    /// several mutator threads request a (forced) GC at the same time: helper threads act for up to `k`
    /// other bound mutators and call in first, then the driver thread requests on behalf of `m`
    RacingGc { m: u8, k: u8 },
    /// run probes for C07/C08/C31 at this point
    Probe { kind: u8, seed: u32 },
    /// build a chain: `n` new objects each referencing the previous, head stored in root
    Chain { m: u8, root: u8, n: u8, extra: u16, sem: u8 },
    /// ephemeron chain of depth k: key_i reachable only through value_{i-1}
    EphChain { m: u8, root: u8, k: u8 },
    /// old-to-young: allocate a young object referenced ONLY from a field of obj(root src)
    OldYoung { m: u8, src: u8, field: u8, extra: u16, via_region: bool },
    /// MarkSweep: allocate objects of one size class from a fresh block until the block is exhausted (C35)
    MsFill { m: u8, size: u16 },
    /// fan-in: create `n` holders all pointing at obj(root target)
    FanIn { m: u8, target: u8, holder: u8, n: u8 },
    /// allocate a referent (semantics `sem`, `chain` further objects behind it) and a registered reference
    /// object of kind 1..3 (soft/weak/phantom) in `root`; `keep`: 0 = referent otherwise unreachable,
    /// 1 = referent also held by root+1, 2 = referent held by a field of obj(root+2), 3 = referent reachable
    /// only through a second, soft reference; `fin`: also register a finalizer on the referent
    WeakPair { m: u8, root: u8, kind: u8, keep: u8, sem: u8, chain: u8, fin: bool },
    /// allocate a finalizable object with a closure of `n` objects; `regs` registrations; root dropped iff `drop`
    FinObj { m: u8, root: u8, n: u8, regs: u8, drop: bool },
    /// fill whole blocks densely with small objects (size 32 + extra) keeping every `keep`-th one alive
    /// through holder objects chained from `root`: survivors and garbage share every line of a block
    DenseFill { m: u8, root: u8, n: u8, extra: u8, keep: u8 },
    /// ConcurrentImmix: allocate until concurrent marking starts, then - while it is in progress - perform up
    /// to 8*n SATB-relevant mutations chosen from `seed` (Hide, field overwrites, allocations of default /
    /// large / non-moving objects that are kept reachable only from roots or from old objects)
    MarkingWindow { m: u8, seed: u32, n: u8 },
    /// `n` forced exhaustive GCs, each preceded by a small seeded mutation of the rooted graph
    /// (allocate a few objects, drop a few), so that line/block state wraps are crossed with a changing heap
    GcLoop { m: u8, n: u8, seed: u32 },
    /// memory_manager::get_finalizers_for(obj(root)): pops every registration of that object
    GetFinalizersFor { m: u8, root: u8 },
    /// memory_manager::get_all_finalizers: pops every outstanding registration
    GetAllFinalizers,
    /// request a GC and, from inside that GC's stop_all_mutators, call prepare_to_fork(); afterwards wait for
    /// every worker thread to exit, then after_fork()
    ForkDuringGc { m: u8 },
    /// C24: dump every side metadata spec in use by the instance and check pairwise disjointness
    CheckSideSpecs { seed: u32 },
    /// SATB pattern: move the referent of the first non-null field of obj(src) into a field of obj(dst),
    /// null the original field (both through the barrier) and drop every root naming the referent
    Hide { m: u8, src: u8, dst: u8 },
}

#[derive(Serialize, Deserialize, Clone, Debug, PartialEq, Eq, Hash)]
pub struct Case {
    pub plan: String,
    pub variant: u8,
    pub heap_kb: u32,
    /// Some((min_kb, max_kb)) selects DynamicHeapSize
    pub dyn_heap: Option<(u32, u32)>,
    pub workers: u8,
    pub mutators: u8,
    pub opts: Vec<(String, String)>,
    pub copy_spin: u32,
    /// which oracle family drives end-of-case decisions ("C01", "C09", ...)
    pub focus: String,
    pub ops: Vec<Op>,
}

pub const PLANS: [&str; 11] = [
    "NoGC", "SemiSpace", "GenCopy", "GenImmix", "MarkSweep", "PageProtect", "Immix", "MarkCompact", "Compressor", "StickyImmix", "ConcurrentImmix",
];

pub const COLLECTING_PLANS: [&str; 10] = [
    "SemiSpace", "GenCopy", "GenImmix", "MarkSweep", "PageProtect", "Immix", "MarkCompact", "Compressor", "StickyImmix", "ConcurrentImmix",
];

/// Verdict printed by the shadowvm process (one JSON line on stdout, prefixed `VERDICT `).
#[derive(Serialize, Deserialize, Clone, Debug, Default)]
pub struct Verdict {
    pub ok: bool,
    /// property id -> violation descriptions
    pub violations: Vec<Violation>,
    pub counters: std::collections::BTreeMap<String, u64>,
    pub notes: Vec<String>,
}

#[derive(Serialize, Deserialize, Clone, Debug)]
pub struct Violation {
    pub property: String,
    pub step: usize,
    pub detail: String,
    /// stable signature used for known-findings matching
    pub signature: String,
}
