//! Unit checks over private instances of heap-layout components (hooks H5):
//! C28 page resources, C29 Map32 region map, C30 chunk-state mmapper.

use super::Entry;
use crate::runner::{Check, Env, Outcome};
use crate::shadow::vm::ShadowVM;
use crate::{vensure, vfail};
use mmtk::util::heap::vm_layout::BYTES_IN_CHUNK;
use mmtk::util::opaque_pointer::{OpaquePointer, VMThread};
use mmtk::util::Address;
use proptest::prelude::*;
use serde::{Deserialize, Serialize};
use std::collections::BTreeMap;

pub fn entries() -> Vec<Entry> {
    vec![
        Entry { id: "C28", rule: "acquire/release histories (1-400 ops, single-threaded and with 4 racing threads) on private FreeListPageResource, MonotonePageResource and BlockPageResource instances over a private Map64; model = set of live grants; every grant page aligned, inside the space and disjoint from all live grants, reserved == committed == sum of live grants at every quiescent point (also after 4 threads made 1500 abandoned attempts each, reserve_pages + clear_request), counters never exceed 2^40; non-trivial = >=1 release followed by a re-grant of the same pages (free-list/block) or >=3 grants crossing a chunk (monotone)", run: c28 },
        Entry { id: "C29", rule: "allocate/free histories (1-200 ops) for 3 spaces on a private Map32 finalised over a 192-chunk window: allocate_contiguous_chunks(n, head of the space), free_contiguous_chunks of list heads / middles / tails, free_all_chunks; model = ordered region list per space + owner per chunk; after every op: regions disjoint, descriptor of every window chunk == owner (or uninitialised), the next-region chain from each head == the model list, region sizes, available count == window - allocated; non-trivial = >=1 free of a non-head region followed by an allocation that reuses its chunks", run: c29 },
        Entry { id: "C30", rule: "histories (1-60 ops) of quarantine_address_range (only over chunks the model has unmapped or mapped), ensure_mapped and mark_as_mapped over arbitrary page ranges inside a 96-chunk window straddling a 32 GiB slab boundary of the two-level state storage, on a private ChunkStateMmapper; model = state per chunk; after every op all 96 chunk states == model (and is_mapped_address == state is mapped), states only move forward, mapped chunks are readable and writable; non-trivial = >=1 range spanning the slab boundary that contained >=2 different prior states", run: c30 },
    ]
}

fn addr(a: usize) -> Address {
    unsafe { Address::from_usize(a) }
}

fn tls() -> VMThread {
    VMThread(OpaquePointer::from_address(addr(0x2000)))
}

/// Is `[start, start+len)` free of any mapping of this process?
fn range_is_unmapped(start: usize, len: usize) -> bool {
    let maps = std::fs::read_to_string("/proc/self/maps").unwrap_or_default();
    for line in maps.lines() {
        if let Some((a, b)) = line.split_whitespace().next().unwrap_or("").split_once('-') {
            let (a, b) = (usize::from_str_radix(a, 16).unwrap_or(0), usize::from_str_radix(b, 16).unwrap_or(0));
            if a < start + len && start < b {
                return false;
            }
        }
    }
    true
}

// ------------------------------------------------------------------ C28

#[derive(Serialize, Deserialize, Clone, Debug)]
enum PrOp {
    /// reserve + get_new_pages(n pages) (block resource: one block)
    Get(u16),
    /// release the k-th live grant (free-list / block resources)
    Release(u16),
    /// reserve, then clear_request (an allocation attempt that is abandoned)
    Abandon(u16),
    /// block resource: flush_all
    Flush,
}

#[derive(Serialize, Deserialize, Clone, Debug)]
struct PrCase {
    /// 0 = free-list (contiguous), 1 = monotone (contiguous), 2 = block (contiguous)
    kind: u8,
    /// space extent in chunks
    chunks: u8,
    threads: u8,
    ops: Vec<PrOp>,
}

fn pr_op() -> impl Strategy<Value = PrOp> {
    prop_oneof![
        6 => prop_oneof![4 => 1u16..8, 2 => 8u16..300, 1 => 300u16..2000].prop_map(PrOp::Get),
        4 => any::<u16>().prop_map(PrOp::Release),
        1 => (1u16..64).prop_map(PrOp::Abandon),
        1 => Just(PrOp::Flush),
    ]
}

struct Slot {
    start: usize,
}

/// Each evaluation gets a fresh 2 TiB space slot: a private Map64 keeps per-slot state that cannot be reset.
fn next_space_slot(thread: usize) -> Option<Slot> {
    use std::sync::atomic::{AtomicUsize, Ordering};
    static NEXT: AtomicUsize = AtomicUsize::new(0);
    let _ = thread;
    let k = NEXT.fetch_add(1, Ordering::SeqCst);
    // slots 1..=15 of the default 64-bit layout; one process evaluates at most 15 cases per map instance
    if k >= 15 {
        return None;
    }
    Some(Slot { start: (k + 1) << 41 })
}

fn c28_eval(case: &PrCase, env: &Env) -> Outcome {
    use mmtk::verif::heap::*;
    use mmtk::verif::SpaceDescriptor;
    type VM = ShadowVM<0>;
    const PAGE: usize = 4096;
    // a fresh private map per 15 cases (a Map64 is a few small vectors)
    thread_local! { static MAP: std::cell::RefCell<Option<&'static Map64>> = const { std::cell::RefCell::new(None) }; }
    let slot = match next_space_slot(env.thread) {
        Some(s) => s,
        None => return Outcome::pass(false),
    };
    let map: &'static Map64 = MAP.with(|m| {
        let mut m = m.borrow_mut();
        if m.is_none() {
            *m = Some(Box::leak(Box::new(Map64::new())));
        }
        m.unwrap()
    });
    let vm_map: &'static dyn VMMap = map;
    let bytes = (case.chunks as usize % 6 + 3) * BYTES_IN_CHUNK;
    if !range_is_unmapped(slot.start, bytes) {
        return Outcome::Inconclusive { msg: format!("address range {:#x}+{:#x} is not free in this process", slot.start, bytes) };
    }
    let desc = SpaceDescriptor::create_descriptor_from_heap_range(addr(slot.start), addr(slot.start + (1usize << 41)));
    let block_pages = 8usize; // 32 KiB Immix block
    enum Pr {
        Fl(FreeListPageResource<VM>),
        Mono(MonotonePageResource<VM>),
        Blk(BlockPageResource<VM, ImmixBlock>),
    }
    let pr = match case.kind % 3 {
        0 => Pr::Fl(FreeListPageResource::new_contiguous(addr(slot.start), bytes, vm_map)),
        1 => Pr::Mono(MonotonePageResource::new_contiguous(addr(slot.start), bytes, vm_map)),
        _ => Pr::Blk(BlockPageResource::new_contiguous(3, addr(slot.start), bytes, vm_map, 4)),
    };
    let pr_dyn: &dyn PageResource<VM> = match &pr {
        Pr::Fl(p) => p,
        Pr::Mono(p) => p,
        Pr::Blk(p) => p,
    };
    // model: live grants start -> pages
    let mut live: BTreeMap<usize, usize> = BTreeMap::new();
    let mut released: Vec<(usize, usize)> = vec![];
    let mut regrant = false;
    let mut chunk_crossings = 0usize;
    let space_end = slot.start + (1usize << 41);
    mmtk::verif::blockpool::set_current_worker_ordinal(0);
    let check_grant = |live: &BTreeMap<usize, usize>, start: usize, pages: usize| -> Result<(), String> {
        if start % PAGE != 0 {
            return Err(format!("grant {:#x} is not page aligned", start));
        }
        if start < slot.start || start + pages * PAGE > space_end {
            return Err(format!("grant [{:#x},+{} pages) leaves the space [{:#x},{:#x})", start, pages, slot.start, space_end));
        }
        if let Some((s, p)) = live.range(..start + pages * PAGE).next_back() {
            if *s + *p * PAGE > start {
                return Err(format!("grant [{:#x},+{} pages) overlaps the live grant [{:#x},+{} pages)", start, pages, s, p));
            }
        }
        Ok(())
    };
    for (i, op) in case.ops.iter().enumerate() {
        match op {
            PrOp::Get(n) => {
                let pages = match &pr {
                    Pr::Blk(_) => block_pages,
                    _ => (*n as usize).max(1),
                };
                // stay inside the extent the resource was created with (growth beyond it is the map's business)
                let live_pages: usize = live.values().sum();
                if (live_pages + pages + 1024) * PAGE > bytes && !matches!(pr, Pr::Mono(_)) {
                    continue;
                }
                if matches!(pr, Pr::Mono(_)) && (pr_dyn.reserved_pages() + pages + 1024) * PAGE > bytes {
                    continue;
                }
                let reserved = pr_dyn.reserve_pages(pages);
                match pr_dyn.get_new_pages(desc, reserved, pages, tls()) {
                    Ok(res) => {
                        let start = res.start.as_usize();
                        vensure!(res.pages == pages, "op {}: asked for {} pages, granted {}", i, pages, res.pages);
                        if let Err(e) = check_grant(&live, start, pages) {
                            vfail!("op {}: {}", i, e);
                        }
                        if released.iter().any(|(s, p)| *s < start + pages * PAGE && start < *s + *p * PAGE) {
                            regrant = true;
                        }
                        if start / BYTES_IN_CHUNK != (start + pages * PAGE - 1) / BYTES_IN_CHUNK {
                            chunk_crossings += 1;
                        }
                        live.insert(start, pages);
                    }
                    Err(_) => {
                        pr_dyn.clear_request(reserved);
                    }
                }
            }
            PrOp::Abandon(n) => {
                let r = pr_dyn.reserve_pages(*n as usize);
                pr_dyn.clear_request(r);
            }
            PrOp::Release(k) => {
                if live.is_empty() {
                    continue;
                }
                let idx = (*k as usize * live.len()) >> 16;
                let (start, pages) = live.iter().nth(idx).map(|(s, p)| (*s, *p)).unwrap();
                match &pr {
                    Pr::Fl(p) => p.release_pages(addr(start)),
                    Pr::Blk(p) => p.release_block(block_from(addr(start))),
                    Pr::Mono(_) => continue, // monotone resources release everything at once (not modelled)
                }
                live.remove(&start);
                released.push((start, pages));
            }
            PrOp::Flush => {
                if let Pr::Blk(p) = &pr {
                    p.flush_all();
                }
            }
        }
        // accounting at quiescence
        let total: usize = live.values().sum();
        let (r, c) = (pr_dyn.reserved_pages(), pr_dyn.committed_pages());
        vensure!(r < (1 << 40) && c < (1 << 40), "op {}: page counters underflowed (reserved {}, committed {})", i, r, c);
        vensure!(r == total && c == total, "op {} ({:?}): reserved {} / committed {} pages, but the live grants add up to {} pages", i, op, r, c, total);
    }
    // multi-threaded tail: 4 threads acquire concurrently, then the grants are checked and released
    if case.threads % 2 == 1 && !matches!(pr, Pr::Mono(_)) {
        let per = 24usize;
        // page resources are shared between allocating threads in mmtk (spaces are `Sync`)
        struct Shared<'a>(&'a dyn PageResource<VM>);
        unsafe impl Send for Shared<'_> {}
        unsafe impl Sync for Shared<'_> {}
        let shared = Shared(pr_dyn);
        let results: Vec<Vec<(usize, usize)>> = std::thread::scope(|s| {
            let hs: Vec<_> = (0..4usize)
                .map(|t| {
                    let shared = &shared;
                    let is_blk = matches!(pr, Pr::Blk(_));
                    s.spawn(move || {
                        let pr_dyn = shared.0;
                        mmtk::verif::blockpool::set_current_worker_ordinal(t);
                        let mut got = vec![];
                        for k in 0..per {
                            let pages = if is_blk { 8 } else { 1 + (t * 7 + k * 3) % 40 };
                            let reserved = pr_dyn.reserve_pages(pages);
                            match pr_dyn.get_new_pages(desc, reserved, pages, tls()) {
                                Ok(res) => got.push((res.start.as_usize(), res.pages)),
                                Err(_) => pr_dyn.clear_request(reserved),
                            }
                        }
                        got
                    })
                })
                .collect();
            hs.into_iter().map(|h| h.join().unwrap()).collect()
        });
        for g in results.iter().flatten() {
            if let Err(e) = check_grant(&live, g.0, g.1) {
                vfail!("concurrent phase: {}", e);
            }
            live.insert(g.0, g.1);
        }
        let total: usize = live.values().sum();
        let (r, c) = (pr_dyn.reserved_pages(), pr_dyn.committed_pages());
        vensure!(r == total && c == total, "after 4 threads acquired concurrently: reserved {} / committed {} pages, live grants add up to {}", r, c, total);
    }
    // abandoned allocation attempts from several threads at once: `reserve_pages` and `clear_request` are
    // called outside any lock by `Space::acquire` / `Space::not_acquiring`, for every kind of page resource
    if case.threads % 4 >= 2 {
        struct Shared<'a>(&'a dyn PageResource<VM>);
        unsafe impl Send for Shared<'_> {}
        unsafe impl Sync for Shared<'_> {}
        let shared = Shared(pr_dyn);
        let start = std::sync::Barrier::new(4);
        std::thread::scope(|s| {
            for t in 0..4usize {
                let shared = &shared;
                let start = &start;
                s.spawn(move || {
                    let pr_dyn = shared.0;
                    start.wait();
                    for k in 0..1500usize {
                        let r = pr_dyn.reserve_pages(1 + (t * 5 + k) % 17);
                        pr_dyn.clear_request(r);
                    }
                });
            }
        });
        let total: usize = live.values().sum();
        let (r, c) = (pr_dyn.reserved_pages(), pr_dyn.committed_pages());
        vensure!(r == total && c == total, "after 4 threads made 1500 abandoned attempts each (reserve_pages + clear_request): reserved {} / committed {} pages, live grants add up to {}", r, c, total);
    }
    let nt = match &pr {
        Pr::Mono(_) => chunk_crossings >= 1 || live.len() >= 3,
        _ => regrant,
    };
    // unmap the free-list table the resource mapped at the start of its slot (keeps the process small)
    unsafe { libc::munmap(slot.start as *mut libc::c_void, bytes) };
    Outcome::pass_l(nt, vec![match &pr { Pr::Fl(_) => "freelist", Pr::Mono(_) => "monotone", Pr::Blk(_) => "block" }])
}

fn c28(c: &mut Check) {
    super::e1checks::c28_system(c);
    let n = c.tier.pick(1_200, 100_000);
    // 15 cases per process (one 2 TiB slot each): spread over many short-lived shards
    let procs = (n as usize + 14) / 15;
    c.section_procs(
        "grant-histories",
        n,
        procs,
        || (0u8..3, any::<u8>(), any::<u8>(), prop::collection::vec(pr_op(), 1..200)).prop_map(|(kind, chunks, threads, ops)| PrCase { kind, chunks, threads, ops }),
        c28_eval,
    );
}

// ------------------------------------------------------------------ C29

#[derive(Serialize, Deserialize, Clone, Debug)]
enum MapOp {
    /// allocate `n` chunks for space `s`
    Alloc { s: u8, n: u8 },
    /// free the k-th region of space `s`
    Free { s: u8, k: u8 },
    /// free every region of space `s` (starting from its k-th region)
    FreeAll { s: u8, k: u8 },
}

#[derive(Serialize, Deserialize, Clone, Debug)]
struct MapCase {
    ops: Vec<MapOp>,
}

const C29_WINDOW_CHUNKS: usize = 192;
const C29_WINDOW_START: usize = 0x0000_0300_0000_0000; // 3 TiB, chunk aligned

fn c29_eval(case: &MapCase, _env: &Env) -> Outcome {
    use mmtk::verif::heap::*;
    use mmtk::verif::SpaceDescriptor;
    // one private map per process, finalised once over the window; every case starts by freeing what is left
    static MAP: std::sync::OnceLock<&'static Map32> = std::sync::OnceLock::new();
    static MODEL: std::sync::Mutex<Option<Vec<Vec<(usize, usize)>>>> = std::sync::Mutex::new(None);
    // once a violation has damaged the process-wide map nothing evaluated afterwards means anything: the
    // first failing history is reported as it is (shrinking candidates "pass")
    static POISONED: std::sync::atomic::AtomicBool = std::sync::atomic::AtomicBool::new(false);
    static DIRTY: std::sync::atomic::AtomicBool = std::sync::atomic::AtomicBool::new(false);
    if DIRTY.swap(true, std::sync::atomic::Ordering::SeqCst) {
        // the previous history of this process did not end normally (violation or panic inside mmtk)
        POISONED.store(true, std::sync::atomic::Ordering::SeqCst);
    }
    if POISONED.load(std::sync::atomic::Ordering::SeqCst) {
        return Outcome::pass(false);
    }
    macro_rules! poison_fail {
        ($($arg:tt)*) => {{ POISONED.store(true, std::sync::atomic::Ordering::SeqCst); return Outcome::Fail { msg: format!($($arg)*) }; }};
    }
    // in-process watchdog: a Map32 call that does not return (e.g. free_all_chunks walking a damaged
    // region list forever) is reported as a failure of the history that was running
    static HEART: std::sync::atomic::AtomicU64 = std::sync::atomic::AtomicU64::new(0);
    static CURRENT: std::sync::Mutex<String> = std::sync::Mutex::new(String::new());
    static WATCHDOG: std::sync::Once = std::sync::Once::new();
    *CURRENT.lock().unwrap() = serde_json::to_string(case).unwrap();
    HEART.fetch_add(1, std::sync::atomic::Ordering::SeqCst);
    WATCHDOG.call_once(|| {
        std::thread::spawn(|| {
            let mut last = HEART.load(std::sync::atomic::Ordering::SeqCst);
            let mut since = std::time::Instant::now();
            loop {
                std::thread::sleep(std::time::Duration::from_millis(500));
                let now = HEART.load(std::sync::atomic::Ordering::SeqCst);
                let in_case = DIRTY.load(std::sync::atomic::Ordering::SeqCst) && !POISONED.load(std::sync::atomic::Ordering::SeqCst);
                if now != last || !in_case {
                    last = now;
                    since = std::time::Instant::now();
                    continue;
                }
                if since.elapsed().as_secs() >= 20 {
                    let case: serde_json::Value = serde_json::from_str(&CURRENT.lock().unwrap()).unwrap_or(serde_json::Value::Null);
                    let out = serde_json::json!({"evaluations": 1, "nontrivial": [], "labels": {}, "samples": [], "known_hits": {}, "inconclusive": [],
                        "failure": {"case": case, "reason": "a Map32 operation of this history has not returned for 20 s (region list damaged: free_all_chunks / the region chain loops forever)"}});
                    println!("SHARD {}", out);
                    std::process::exit(0);
                }
            }
        });
    });
    init_sft_map();
    let map: &'static Map32 = MAP.get_or_init(|| {
        let m: &'static Map32 = Box::leak(Box::new(Map32::new()));
        m.finalize_static_space_map(addr(C29_WINDOW_START), addr(C29_WINDOW_START + (C29_WINDOW_CHUNKS - 1) * BYTES_IN_CHUNK), &mut |_| {});
        m
    });
    let descs: Vec<SpaceDescriptor> = (0..3).map(|_| SpaceDescriptor::create_descriptor()).collect();
    // model: per space the region list, newest first (the head of the list is the most recent region)
    let mut model: Vec<Vec<(usize, usize)>> = MODEL.lock().unwrap().take().unwrap_or_else(|| vec![vec![], vec![], vec![]]);
    // clean slate
    for s in 0..3 {
        if let Some((head, _)) = model[s].first() {
            map.free_all_chunks(addr(*head));
        }
        model[s].clear();
    }
    let mut freed_nonhead: Vec<(usize, usize)> = vec![];
    let mut reused = false;
    let verify = |model: &Vec<Vec<(usize, usize)>>, descs: &Vec<SpaceDescriptor>, what: &str| -> Result<(), String> {
        // owner per chunk
        let mut owner: Vec<Option<usize>> = vec![None; C29_WINDOW_CHUNKS];
        let mut allocated = 0usize;
        for (s, regions) in model.iter().enumerate() {
            for (start, n) in regions {
                let first = (*start - C29_WINDOW_START) / BYTES_IN_CHUNK;
                for c in first..first + n {
                    if c >= C29_WINDOW_CHUNKS {
                        return Err(format!("{}: region {:#x}+{} chunks leaves the window", what, start, n));
                    }
                    if let Some(o) = owner[c] {
                        return Err(format!("{}: chunk {} belongs to the regions of both space {} and space {}", what, c, o, s));
                    }
                    owner[c] = Some(s);
                }
                allocated += n;
            }
        }
        for c in 0..C29_WINDOW_CHUNKS {
            let d = map.get_descriptor_for_address(addr(C29_WINDOW_START + c * BYTES_IN_CHUNK + 4096));
            match owner[c] {
                Some(s) => {
                    if d != descs[s] {
                        return Err(format!("{}: chunk {} is allocated to space {} but its descriptor is {:?}", what, c, s, d));
                    }
                }
                None => {
                    if !d.is_empty() {
                        return Err(format!("{}: chunk {} is free but still carries descriptor {:?}", what, c, d));
                    }
                }
            }
        }
        for (s, regions) in model.iter().enumerate() {
            // walk the chain from the head
            let mut cur = regions.first().map(|r| r.0).unwrap_or(0);
            for (i, (start, n)) in regions.iter().enumerate() {
                if cur != *start {
                    return Err(format!("{}: space {}: region #{} of the chain is {:#x}, the model expects {:#x}", what, s, i, cur, start));
                }
                let got = map.get_contiguous_region_chunks(addr(cur));
                if got != *n {
                    return Err(format!("{}: space {}: region {:#x} reports {} chunks, the model expects {}", what, s, cur, got, n));
                }
                cur = map.get_next_contiguous_region(addr(cur)).as_usize();
            }
            if cur != 0 {
                return Err(format!("{}: space {}: the region chain continues to {:#x} beyond the model's last region", what, s, cur));
            }
        }
        let avail = map.get_available_discontiguous_chunks();
        if avail != C29_WINDOW_CHUNKS - allocated {
            return Err(format!("{}: {} chunks available, expected window {} - allocated {}", what, avail, C29_WINDOW_CHUNKS, allocated));
        }
        Ok(())
    };
    if let Err(e) = verify(&model, &descs, "initially") {
        poison_fail!("{}", e);
    }
    for (i, op) in case.ops.iter().enumerate() {
        HEART.fetch_add(1, std::sync::atomic::Ordering::SeqCst);
        match op {
            MapOp::Alloc { s, n } => {
                let s = *s as usize % 3;
                let n = (*n as usize % 24) + 1;
                let head = model[s].first().map(|r| r.0).unwrap_or(0);
                let got = unsafe { map.allocate_contiguous_chunks(descs[s], n, addr(head), None) }.as_usize();
                // does the model have n contiguous free chunks?
                let mut owner = vec![false; C29_WINDOW_CHUNKS];
                for regions in model.iter() {
                    for (start, k) in regions {
                        let first = (*start - C29_WINDOW_START) / BYTES_IN_CHUNK;
                        for c in first..first + k {
                            owner[c] = true;
                        }
                    }
                }
                let mut run = 0;
                let mut fits = false;
                for c in 0..C29_WINDOW_CHUNKS {
                    run = if owner[c] { 0 } else { run + 1 };
                    if run >= n {
                        fits = true;
                    }
                }
                if got == 0 {
                    if !(!fits) { poison_fail!("op {}: allocate_contiguous_chunks({}) for space {} failed although {} contiguous free chunks exist", i, n, s, n) }
                    continue;
                }
                if !(fits) { poison_fail!("op {}: allocate_contiguous_chunks({}) succeeded at {:#x} although the model has no free run of {} chunks", i, n, got, n) }
                if !(got % BYTES_IN_CHUNK == 0 && got >= C29_WINDOW_START && got + n * BYTES_IN_CHUNK <= C29_WINDOW_START + C29_WINDOW_CHUNKS * BYTES_IN_CHUNK) { poison_fail!("op {}: region {:#x}+{} chunks is outside the window", i, got, n) }
                if freed_nonhead.iter().any(|(a, k)| *a < got + n * BYTES_IN_CHUNK && got < *a + *k * BYTES_IN_CHUNK) {
                    reused = true;
                }
                model[s].insert(0, (got, n));
            }
            MapOp::Free { s, k } => {
                let s = *s as usize % 3;
                if model[s].is_empty() {
                    continue;
                }
                let idx = (*k as usize * model[s].len()) >> 8;
                let (start, n) = model[s][idx];
                let freed = unsafe { map.free_contiguous_chunks(addr(start)) };
                if !(freed == n) { poison_fail!("op {}: free_contiguous_chunks({:#x}) freed {} chunks, the region had {}", i, start, freed, n) }
                model[s].remove(idx);
                if idx != 0 {
                    freed_nonhead.push((start, n));
                }
            }
            MapOp::FreeAll { s, k } => {
                let s = *s as usize % 3;
                if model[s].is_empty() {
                    continue;
                }
                let idx = (*k as usize * model[s].len()) >> 8;
                map.free_all_chunks(addr(model[s][idx].0));
                model[s].clear();
            }
        }
        if let Err(e) = verify(&model, &descs, &format!("after op {} ({:?})", i, op)) {
            // the map is now inconsistent: do not reuse it for later cases of this process
            poison_fail!("{}", e);
        }
    }
    // final clean-up inside the case (so that a damaged map is attributed to the history that damaged it):
    // free every space's regions starting from the *last* region of its list, which walks the prev links
    for s in 0..3 {
        if let Some((tail, _)) = model[s].last() {
            map.free_all_chunks(addr(*tail));
        }
        model[s].clear();
    }
    if let Err(e) = verify(&model, &descs, "after freeing everything at the end of the history") {
        poison_fail!("{}", e);
    }
    *MODEL.lock().unwrap() = Some(model);
    DIRTY.store(false, std::sync::atomic::Ordering::SeqCst);
    Outcome::pass(reused)
}

fn c29(c: &mut Check) {
    let n = c.tier.pick(3_000, 300_000);
    c.section_procs(
        "region-histories",
        n,
        8,
        || {
            prop::collection::vec(
                prop_oneof![
                    6 => (0u8..3, any::<u8>()).prop_map(|(s, n)| MapOp::Alloc { s, n }),
                    5 => (0u8..3, any::<u8>()).prop_map(|(s, k)| MapOp::Free { s, k }),
                    1 => (0u8..3, any::<u8>()).prop_map(|(s, k)| MapOp::FreeAll { s, k }),
                ],
                1..200,
            )
            .prop_map(|ops| MapCase { ops })
        },
        c29_eval,
    );
}

// ------------------------------------------------------------------ C30

#[derive(Serialize, Deserialize, Clone, Debug)]
enum MmOp {
    /// (first page of the range as an offset into the window, pages)
    Quarantine(u32, u32),
    Ensure(u32, u32),
    MarkMapped(u32, u32),
}

#[derive(Serialize, Deserialize, Clone, Debug)]
struct MmCase {
    ops: Vec<MmOp>,
}

const C30_CHUNKS: usize = 96;
/// 1 TiB is a multiple of the 32 GiB slab size of the two-level storage: the window straddles a slab boundary
const C30_BOUNDARY: usize = 1 << 40;
const C30_START: usize = C30_BOUNDARY - (C30_CHUNKS / 2) * BYTES_IN_CHUNK;

fn c30_eval(case: &MmCase, _env: &Env) -> Outcome {
    use mmtk::verif::heap::*;
    const PAGE: usize = 4096;
    let window_bytes = C30_CHUNKS * BYTES_IN_CHUNK;
    // fresh OS state and a fresh mmapper per case
    unsafe { libc::munmap(C30_START as *mut libc::c_void, window_bytes) };
    if !range_is_unmapped(C30_START, window_bytes) {
        return Outcome::Inconclusive { msg: "the C30 window is not free in this process".into() };
    }
    let mm = ChunkStateMmapper::new();
    let anno = MmapAnnotation::Misc { name: "verif-c30" };
    let mut model = [0u8; C30_CHUNKS];
    let mut nontrivial = false;
    let pages_in_window = window_bytes / PAGE;
    for (i, op) in case.ops.iter().enumerate() {
        let (off, len) = match op {
            MmOp::Quarantine(o, l) | MmOp::Ensure(o, l) | MmOp::MarkMapped(o, l) => (*o as usize % pages_in_window, (*l as usize).max(1)),
        };
        let len = len.min(pages_in_window - off);
        let start = C30_START + off * PAGE;
        let first = (start - C30_START) / BYTES_IN_CHUNK;
        let last = (start + len * PAGE - 1 - C30_START) / BYTES_IN_CHUNK;
        let prior: std::collections::BTreeSet<u8> = (first..=last).map(|c| model[c]).collect();
        let spans_boundary = start < C30_BOUNDARY && start + len * PAGE > C30_BOUNDARY;
        let before = model;
        match op {
            MmOp::Quarantine(..) => {
                // quarantining an already quarantined chunk is a documented panic: out of domain
                if prior.contains(&1) {
                    continue;
                }
                if let Err(e) = mm.quarantine_address_range(addr(start), len, HugePageSupport::No, &anno) {
                    return Outcome::Inconclusive { msg: format!("quarantine failed in the OS: {:?}", e) };
                }
                for c in first..=last {
                    if model[c] == 0 {
                        model[c] = 1;
                    }
                }
            }
            MmOp::Ensure(..) => {
                if let Err(e) = mm.ensure_mapped(addr(start), len, HugePageSupport::No, MmapProtection::ReadWrite, &anno) {
                    return Outcome::Inconclusive { msg: format!("ensure_mapped failed in the OS: {:?}", e) };
                }
                for c in first..=last {
                    model[c] = 2;
                }
            }
            MmOp::MarkMapped(..) => {
                // the caller has mapped the memory itself
                let cs = C30_START + first * BYTES_IN_CHUNK;
                let cb = (last - first + 1) * BYTES_IN_CHUNK;
                let p = unsafe { libc::mmap(cs as *mut libc::c_void, cb, libc::PROT_READ | libc::PROT_WRITE, libc::MAP_PRIVATE | libc::MAP_ANONYMOUS | libc::MAP_FIXED | libc::MAP_NORESERVE, -1, 0) };
                if p as usize != cs {
                    return Outcome::Inconclusive { msg: "mmap for mark_as_mapped failed".into() };
                }
                mm.mark_as_mapped(addr(start), len * PAGE);
                for c in first..=last {
                    model[c] = 2;
                }
            }
        }
        if spans_boundary && prior.len() >= 2 {
            nontrivial = true;
        }
        for c in 0..C30_CHUNKS {
            let a = addr(C30_START + c * BYTES_IN_CHUNK);
            let st = mm.verif_state(a);
            vensure!(st == model[c], "op {} ({:?}): chunk {} (at {:#x}) is in state {}, the model expects {} (0 unmapped, 1 quarantined, 2 mapped); requested chunks {}..={}", i, op, c, a.as_usize(), st, model[c], first, last);
            vensure!(st >= before[c], "op {} ({:?}): chunk {} moved backwards from state {} to {}", i, op, c, before[c], st);
            let mapped = mm.is_mapped_address(a + 8usize);
            vensure!(mapped == (model[c] == 2), "op {}: is_mapped_address(chunk {}) = {}, model state {}", i, c, mapped, model[c]);
        }
        // mapped chunks are readable and writable: touch the first and last byte of every requested chunk that is mapped
        for c in first..=last {
            if model[c] == 2 {
                let a = C30_START + c * BYTES_IN_CHUNK;
                if !range_is_unmapped(a, PAGE) {
                    unsafe {
                        let p = a as *mut u8;
                        let q = (a + BYTES_IN_CHUNK - 1) as *mut u8;
                        let v = std::ptr::read_volatile(p);
                        std::ptr::write_volatile(p, v.wrapping_add(1));
                        let w = std::ptr::read_volatile(q);
                        std::ptr::write_volatile(q, w.wrapping_add(1));
                    }
                } else {
                    vfail!("op {} ({:?}): chunk {} is recorded as mapped but the OS has no mapping at {:#x}", i, op, c, a);
                }
            }
        }
    }
    unsafe { libc::munmap(C30_START as *mut libc::c_void, window_bytes) };
    Outcome::pass(nontrivial)
}

fn c30(c: &mut Check) {
    let n = c.tier.pick(1_200, 60_000);
    let pages_in_window = (C30_CHUNKS * BYTES_IN_CHUNK / 4096) as u32;
    c.section_procs(
        "transition-histories",
        n,
        8,
        move || {
            let range = move || {
                (
                    prop_oneof![
                        // around the slab boundary (the middle of the window)
                        3 => (pages_in_window / 2 - 3000)..(pages_in_window / 2 + 10),
                        2 => 0u32..pages_in_window,
                    ],
                    prop_oneof![3 => 1u32..64, 3 => 64u32..5000, 1 => 5000u32..20000],
                )
            };
            prop::collection::vec(
                prop_oneof![
                    3 => range().prop_map(|(o, l)| MmOp::Quarantine(o, l)),
                    4 => range().prop_map(|(o, l)| MmOp::Ensure(o, l)),
                    1 => range().prop_map(|(o, l)| MmOp::MarkMapped(o, l)),
                ],
                1..60,
            )
            .prop_map(|ops| MmCase { ops })
        },
        c30_eval,
    );
}
