//! Probe-style oracles (C07, C08, C09, C16, C31) run at chosen points of a case.

use super::exec::*;
use super::vm::*;
use mmtk::memory_manager as mm;
use mmtk::util::{Address, ObjectReference};
use std::collections::{HashMap, HashSet};
use std::sync::atomic::Ordering;

fn addr(a: usize) -> Address {
    unsafe { Address::from_usize(a) }
}

macro_rules! cnt {
    ($self:expr, $k:expr) => {
        *$self.verdict.counters.entry($k.to_string()).or_insert(0) += 1
    };
    ($self:expr, $k:expr, $n:expr) => {
        *$self.verdict.counters.entry($k.to_string()).or_insert(0) += $n as u64
    };
}

/// tiny deterministic generator for probe offsets (seeded from the case data only)
pub struct Lcg(pub u64);
impl Lcg {
    pub fn next(&mut self) -> u64 {
        self.0 = self.0.wrapping_mul(6364136223846793005).wrapping_add(1442695040888963407);
        self.0 >> 17
    }
    pub fn below(&mut self, n: usize) -> usize {
        if n == 0 {
            0
        } else {
            (self.next() % n as u64) as usize
        }
    }
}

/// C07: after an exhaustive stop-the-world GC, MMTk reports exactly the survivors.
pub fn post_exhaustive<const V: usize>(e: &mut Exec<V>, visited: &HashSet<u64>) {
    #[cfg(feature = "vo_bit")]
    {
        // finalizable objects that are still queued inside MMTk are alive too
        let mut seen: HashMap<usize, u32> = HashMap::new();
        let mut ids: HashMap<u64, usize> = HashMap::new();
        let mut list = vec![];
        e.mmtk.enumerate_objects(|o: ObjectReference| {
            list.push(o.to_raw_address().as_usize());
        });
        for a in &list {
            *seen.entry(*a).or_insert(0) += 1;
        }
        for (a, n) in &seen {
            if *n > 1 {
                e.violate("C07", "enumerated-twice", format!("enumerate_objects visited {:#x} {} times", a, n));
                return;
            }
        }
        for a in &list {
            let raw = RawObj { start: *a - e.ro };
            ids.insert(raw.id(), *a);
        }
        // every survivor the shadow heap knows must be enumerated and accepted
        let mut spaces: HashSet<&'static str> = HashSet::new();
        let snapshot: Vec<(u64, SObj)> = e.objs.iter().map(|(k, v)| (*k, v.clone())).collect();
        for (id, o) in snapshot.iter() {
            if o.state == State::Live || visited.contains(id) {
                if !seen.contains_key(&o.addr) {
                    let d = format!("survivor id {} at {:#x} (space {}) was not visited by enumerate_objects", id, o.addr, o.space);
                    e.violate("C07", "survivor-not-enumerated", d);
                    return;
                }
                match mm::is_mmtk_object(addr(o.addr)) {
                    Some(r) if r.to_raw_address().as_usize() == o.addr => {}
                    other => {
                        let d = format!("is_mmtk_object({:#x}) = {:?} for survivor id {}", o.addr, other, id);
                        e.violate("C07", "survivor-not-accepted", d);
                        return;
                    }
                }
                spaces.insert(o.space);
            }
        }
        // everything enumerated must be a survivor (reachable, limbo/finalizer-retained, never-collected)
        for (id, a) in &ids {
            match e.objs.get(id) {
                Some(o) => {
                    if o.state == State::Live && o.addr != *a {
                        e.violate("C07", "stale-copy-enumerated", format!("enumerate_objects visited {:#x} holding id {} whose live copy is at {:#x}", a, id, o.addr));
                        return;
                    }
                }
                None => {
                    let under_nogc = e.is_nogc;
                    if !under_nogc {
                        e.violate("C07", "dead-object-enumerated", format!("enumerate_objects visited {:#x} (id {}) which did not survive the exhaustive GC", a, id));
                        return;
                    }
                }
            }
        }
        // reclaimed / moved-away addresses are no longer valid objects
        let live_addrs: HashSet<usize> = e.objs.values().map(|o| o.addr).collect();
        let dead = std::mem::take(&mut e.dead_addrs);
        let mut checked = 0;
        for (a, id, _size) in &dead {
            if live_addrs.contains(a) || seen.contains_key(a) {
                continue;
            }
            if !mm::is_mapped_address(addr(*a)) {
                continue;
            }
            if let Some(r) = mm::is_mmtk_object(addr(*a)) {
                e.violate("C07", "reclaimed-still-valid", format!("is_mmtk_object({:#x}) = Some({:?}) for reclaimed object id {}", a, r, id));
                return;
            }
            checked += 1;
        }
        cnt!(e, "c07_checks");
        cnt!(e, "c07_dead_addr_checked", checked);
        if checked > 0 && spaces.len() >= 2 {
            cnt!(e, "c07_nontrivial");
        }
    }
    #[cfg(not(feature = "vo_bit"))]
    {
        let _ = (e, visited);
    }
}

pub fn probe<const V: usize>(e: &mut Exec<V>, kind: u8, seed: u32) {
    match kind % 2 {
        0 => probe_internal_pointers(e, seed),
        _ => probe_resolution(e, seed),
    }
}

/// C08: interior pointer / conservative lookups against the shadow interval map.
fn probe_internal_pointers<const V: usize>(e: &mut Exec<V>, seed: u32) {
    #[cfg(feature = "vo_bit")]
    {
        let mut rng = Lcg(seed as u64 ^ 0x5851_F42D_4C95_7F2D);
        let live: Vec<(u64, usize, usize)> = e.objs.values().filter(|o| o.state == State::Live).map(|o| (o.id, o.addr, o.size)).collect();
        if live.is_empty() {
            return;
        }
        let ro = e.ro;
        // interval map of live objects by object start
        let mut by_start: std::collections::BTreeMap<usize, (usize, usize, u64)> = Default::default();
        for (id, a, size) in &live {
            by_start.insert(*a - ro, (*a - ro + *size, *a, *id));
        }
        let known_unaligned = e.allow_known("find-prev-unaligned");
        let nsample = live.len().min(24);
        for _ in 0..nsample {
            let (id, a, size) = live[rng.below(live.len())];
            let start = a - ro;
            // is_mmtk_object on word aligned addresses around and inside the object
            let mut addrs: Vec<usize> = vec![a, start, start + 8, a + 8, start + size - 8, start + size, start + size + 8];
            if start >= 16 {
                addrs.push(start - 8);
                addrs.push(start - 16);
            }
            for _ in 0..6 {
                addrs.push(start + (rng.below(size + 32) & !7));
            }
            for p in addrs {
                if p == 0 || p % 8 != 0 {
                    continue;
                }
                let expect = e.addr2id.get(&p).copied();
                // an address may also be a not-yet-collected dead object: only assert on what the shadow knows
                let in_live_body = by_start.range(..=p).next_back().map(|(s, (end, _, _))| p >= *s && p < *end).unwrap_or(false);
                let got = mm::is_mmtk_object(addr(p));
                cnt!(e, "c08_is_object_probe");
                match (expect, got) {
                    (Some(xid), Some(r)) => {
                        if r.to_raw_address().as_usize() != p {
                            e.violate("C08", "is-object-wrong-ref", format!("is_mmtk_object({:#x}) returned {:?} for object id {}", p, r, xid));
                            return;
                        }
                    }
                    (Some(xid), None) => {
                        e.violate("C08", "is-object-missed", format!("is_mmtk_object({:#x}) = None but that is the reference of live object id {}", p, xid));
                        return;
                    }
                    (None, Some(r)) => {
                        if in_live_body {
                            e.violate("C08", "is-object-spurious", format!("is_mmtk_object({:#x}) = Some({:?}) but the address is inside live object id {} (ref {:#x}, size {}) and is not its reference", p, r, id, a, size));
                            return;
                        }
                        // outside live objects the address may be a dead object that has not been collected yet
                        cnt!(e, "c08_unknown_region_some");
                    }
                    (None, None) => {}
                }
            }
            // find_object_from_internal_pointer
            let dists: Vec<usize> = vec![0, 1, 5, 7, 8, 9, size / 2, size.saturating_sub(ro + 1), 4095.min(size.saturating_sub(ro + 1)), 4096.min(size.saturating_sub(ro + 1)), 4097.min(size.saturating_sub(ro + 1))];
            for d in dists {
                let p = a + d; // p - ref == d
                if p >= start + size {
                    continue;
                }
                for n in [1usize, 2, 7, 8, 9, d.max(1), d + 1, d + 2, d + 9, 4096, 1 << 20] {
                    if p % 8 != 0 && !known_unaligned {
                        // unaligned interior pointers: see known finding C08/find-prev-unaligned
                        if n <= d {
                            cnt!(e, "c08_steered_unaligned_small_n");
                            continue;
                        }
                    }
                    let got = mm::find_object_from_internal_pointer(addr(p), n);
                    cnt!(e, "c08_internal_probe");
                    if p % 8 != 0 || p >= a + 4096 || n <= d {
                        cnt!(e, "c08_internal_probe_nontrivial");
                    }
                    if d < n {
                        // must find exactly this object
                        match got {
                            Some(r) if r.to_raw_address().as_usize() == a => {}
                            other => {
                                e.violate("C08", "internal-missed", format!("find_object_from_internal_pointer({:#x}, {}) = {:?}; expected object id {} with reference {:#x} (size {}, distance {})", p, n, other, id, a, size, d));
                                return;
                            }
                        }
                    } else if d > n {
                        // The object's reference is more than n bytes below p.  The API doc calls n a
                        // search bound; LOS resolves at page granularity and returns the enclosing
                        // object anyway.  Returning the *enclosing* object is tolerated (oracle abstains);
                        // returning any other object is not.
                        if let Some(r) = got {
                            if r.to_raw_address().as_usize() == a {
                                cnt!(e, "c08_beyond_limit_enclosing_returned");
                            } else {
                                e.violate("C08", "internal-wrong-object", format!("find_object_from_internal_pointer({:#x}, {}) returned {:?} but the pointer is inside object id {} at {:#x}", p, n, r, id, a));
                                return;
                            }
                        }
                    }
                }
            }
            // just past the end: must not resolve to this object
            for p in [start + size, start + size + 1, start + size + 8] {
                let got = mm::find_object_from_internal_pointer(addr(p), 1 << 20);
                if let Some(r) = got {
                    if r.to_raw_address().as_usize() == a {
                        e.violate("C08", "internal-past-end", format!("find_object_from_internal_pointer({:#x}, 1MiB) returned object id {} [{:#x},{:#x}) although the pointer is past its end", p, id, start, start + size));
                        return;
                    }
                }
            }
            // before the reference (between object start and reference for ref_offset > 0): not an internal pointer
            if ro > 0 {
                let got = mm::find_object_from_internal_pointer(addr(start), 64);
                if let Some(r) = got {
                    if r.to_raw_address().as_usize() == a {
                        e.violate("C08", "internal-before-ref", format!("find_object_from_internal_pointer({:#x}) returned object {:#x} whose reference lies above the pointer", start, a));
                        return;
                    }
                }
            }
        }
        // addresses outside the heap: no panic, None
        let hs = mm::starting_heap_address().as_usize();
        let he = mm::last_heap_address().as_usize();
        for p in [0x1000usize, 8, hs - 8, he, he + 8, usize::MAX & !7, 1usize << 47, (1usize << 47) - 8] {
            if mm::is_mmtk_object(addr(p)).is_some() {
                e.violate("C08", "outside-heap-some", format!("is_mmtk_object({:#x}) is Some for an address outside the heap", p));
                return;
            }
            if mm::find_object_from_internal_pointer(addr(p), 4096).is_some() {
                e.violate("C08", "outside-heap-some", format!("find_object_from_internal_pointer({:#x}, 4096) is Some for an address outside the heap", p));
                return;
            }
            cnt!(e, "c08_outside_probe");
        }
    }
    #[cfg(not(feature = "vo_bit"))]
    {
        let _ = (e, seed);
    }
}

/// C31: address-to-space resolution.
fn probe_resolution<const V: usize>(e: &mut Exec<V>, seed: u32) {
    let mut rng = Lcg(seed as u64 ^ 0x1234_5678_9abc_def1);
    let hs = mm::starting_heap_address().as_usize();
    let he = mm::last_heap_address().as_usize();
    let infos = mmtk::verif::space_infos(e.mmtk);
    let mut addrs: Vec<usize> = vec![8, 0x1000, hs.saturating_sub(8), hs, hs + 8, he - 8, he, he.saturating_add(8), (1usize << 47) - 8, 1usize << 47, (1usize << 47) + 8, usize::MAX & !7, usize::MAX - 4095];
    for s in &infos {
        let st = s.start.as_usize();
        if st != 0 {
            for d in [0usize, 8, 4096, 1 << 22] {
                addrs.push(st + d);
                addrs.push(st.saturating_sub(d + 8));
                addrs.push(st + s.extent - 8);
                addrs.push(st + s.extent + d);
            }
        }
    }
    for _ in 0..2000 {
        let span = he - hs;
        addrs.push((hs + (rng.next() as usize % span)) & !7);
    }
    for _ in 0..200 {
        addrs.push((rng.next() as usize) & !7 & ((1usize << 48) - 1));
    }
    let objs: Vec<(u64, usize, usize, &'static str)> = e.objs.values().filter(|o| o.state == State::Live).map(|o| (o.id, o.addr, o.size, o.space)).collect();
    for (id, a, size, space) in &objs {
        let start = *a - e.ro;
        for p in [start, *a, start + size - 1] {
            let name = mmtk::verif::space_name_of(addr(p));
            if name != *space {
                e.violate("C31", "object-wrong-space", format!("address {:#x} inside live object id {} resolves to space {} but the object lives in {}", p, id, name, space));
                return;
            }
        }
        if !mm::is_in_mmtk_spaces(ObjectReference::from_raw_address(addr(*a)).unwrap()) {
            e.violate("C31", "object-not-in-spaces", format!("is_in_mmtk_spaces false for live object id {} at {:#x}", id, a));
            return;
        }
        cnt!(e, "c31_object_probe");
    }
    let names: HashSet<&'static str> = infos.iter().map(|s| s.name).collect();
    for p in addrs {
        if p == 0 {
            continue;
        }
        let name = mmtk::verif::space_name_of(addr(p));
        let desc = mmtk::verif::descriptor_raw_for_address(addr(p));
        let outside = p < hs || p >= he;
        cnt!(e, "c31_addr_probe");
        if (p >= hs.saturating_sub(1 << 22) && p < hs + (1 << 22)) || (p.saturating_add(1 << 22) >= he && p < he.saturating_add(1 << 22)) {
            cnt!(e, "c31_edge_probe");
        }
        if outside {
            if name != "empty" {
                e.violate("C31", "outside-heap-nonempty", format!("address {:#x} outside the heap [{:#x},{:#x}) resolves to space {}", p, hs, he, name));
                return;
            }
            if p % 8 == 0 {
                if let Some(o) = ObjectReference::from_raw_address(addr(p)) {
                    if mm::is_in_mmtk_spaces(o) {
                        e.violate("C31", "outside-heap-in-spaces", format!("is_in_mmtk_spaces true for {:#x} outside the heap", p));
                        return;
                    }
                }
            }
        } else if name != "empty" {
            if !names.contains(name) {
                e.violate("C31", "unknown-space", format!("address {:#x} resolves to unknown space {}", p, name));
                return;
            }
            // SFT non-empty => the VM map's descriptor is that space's descriptor
            let sp = infos.iter().find(|s| s.name == name).unwrap();
            if desc != sp.descriptor_raw {
                e.violate("C31", "descriptor-mismatch", format!("address {:#x}: SFT says space {} (descriptor {:#x}) but the VM map descriptor is {:#x}", p, name, sp.descriptor_raw, desc));
                return;
            }
        }
        if desc == 0 && name != "empty" && !outside {
            e.violate("C31", "descriptor-empty-sft-nonempty", format!("address {:#x}: VM map has no descriptor but SFT says {}", p, name));
            return;
        }
    }
}

/// C16: prepare_to_fork / join / after_fork round trip.
pub fn fork_cycle<const V: usize>(e: &mut Exec<V>) {
    e.mmtk.prepare_to_fork();
    fork_join_and_respawn(e);
}

/// After prepare_to_fork() has been called (by the driver, or from inside a GC): every worker thread must
/// exit; then respawn.  A worker that never exits is reported by the quiescence watchdog of the process
/// (all workers parked with a pending request), not by a timeout here.
pub fn fork_join_and_respawn<const V: usize>(e: &mut Exec<V>) {
    let gl = g();
    let n = e.case.workers.max(1) as usize;
    let spawned_before = gl.spawned.load(Ordering::SeqCst);
    let handles: Vec<(usize, std::thread::JoinHandle<()>)> = std::mem::take(&mut *gl.workers.lock().unwrap());
    let mut ordinals = vec![];
    for (ord, h) in handles {
        if h.join().is_err() {
            e.violate("C16", "worker-panicked", format!("worker {} panicked while stopping for fork", ord));
            return;
        }
        ordinals.push(ord);
    }
    e.check_events();
    if let Some(v) = e.sched.at_all_workers_exited() {
        e.violate(v.property, v.signature, v.detail);
        return;
    }
    ordinals.sort();
    if ordinals != (0..n).collect::<Vec<_>>() {
        e.violate("C16", "exit-set", format!("prepare_to_fork: workers that exited = {:?}, expected 0..{}", ordinals, n));
        return;
    }
    e.mmtk.after_fork(mutator_tls(0).0);
    let spawned_after = gl.spawned.load(Ordering::SeqCst);
    if spawned_after - spawned_before != n as u64 {
        e.violate("C16", "respawn-count", format!("after_fork spawned {} workers, expected {}", spawned_after - spawned_before, n));
        return;
    }
    let mut now: Vec<usize> = gl.workers.lock().unwrap().iter().map(|(o, _)| *o).collect();
    now.sort();
    if now != (0..n).collect::<Vec<_>>() {
        e.violate("C16", "respawn-ordinals", format!("after_fork respawned ordinals {:?}, expected 0..{}", now, n));
        return;
    }
    cnt!(e, "fork_cycle");
}

/// End of case: plan-independent closing checks.
pub fn finish<const V: usize>(e: &mut Exec<V>) {
    // C09 floor: used bytes after exhaustive GCs must not creep up
    if e.case.focus == "C09" {
        // used bytes after exhaustive GCs that found nothing reachable must stay below a constant floor:
        // the maximum over the first three such GCs plus a slack of 16 pages per allocator-owned block list
        // (1 MiB), far below what one leaked block per cycle accumulates over the >= 10 cycles of a case
        let u = e.used_after_empty_gc.clone();
        // Absolute floor: when an exhaustive GC leaves no object at all, every plan gives back all its memory
        // (measured: used_bytes == 0 for all ten collecting plans, with eager and with lazy sweeping); one
        // 32 KiB block of tolerance.
        if let Some((k, v)) = u.iter().enumerate().find(|(_, v)| **v > 32 * 1024) {
            e.violate("C09", "garbage-not-reclaimed", format!("used_bytes is {} after the {}th exhaustive GC that left no object alive (series: {:?})", v, k + 1, u));
            return;
        }
        let u = &u;
        if u.len() > 6 {
            let floor = *u[..3].iter().max().unwrap();
            let slack = 1 << 20;
            for (k, v) in u.iter().enumerate().skip(3) {
                if *v > floor + slack {
                    e.violate("C09", "used-creeps", format!("used_bytes after the {}th exhaustive GC with no reachable object is {} > floor {} (max of the first three) + 1 MiB; series: {:?}", k + 1, v, floor, u));
                    return;
                }
            }
            cnt!(e, "c09_cycles", u.len());
            let mx = *u.iter().max().unwrap();
            e.verdict.counters.insert("c09_max_used_after_empty_gc_kb".into(), (mx / 1024) as u64);
        }
        if std::env::var("VH_TRACE").is_ok() {
            eprintln!("C09 series: {:?}", u);
        }
        if g().oom_calls.load(Ordering::SeqCst) > 0 {
            e.violate("C09", "oom", "out_of_memory called in an allocate-drop-GC loop".to_string());
            return;
        }
    }
    // C34: block state byte encoding round trip
    for b in 0..=255u8 {
        let (back, reusable) = mmtk::verif::immix_block_state_roundtrip(b);
        if back != b {
            e.violate("C34", "block-state-roundtrip", format!("block state byte {} decodes and re-encodes to {}", b, back));
            return;
        }
        if reusable != (b != 0 && b != 255 && b != 254) {
            e.violate("C34", "block-state-roundtrip", format!("block state byte {} classified reusable={}", b, reusable));
            return;
        }
    }
    // page accounting at quiescence
    for s in mmtk::verif::space_infos(e.mmtk) {
        if s.reserved_pages > (1 << 40) || s.committed_pages > (1 << 40) {
            e.violate("C28", "counter-underflow", format!("space {}: reserved {} committed {}", s.name, s.reserved_pages, s.committed_pages));
            return;
        }
        if s.committed_pages > s.reserved_pages {
            // Known finding (C28): the Compressor's RegionPageResource double-counts committed pages.
            let sig = if e.case.plan == "Compressor" && s.name == "compressor_space" { "compressor-region-pr-committed-gt-reserved" } else { "committed-gt-reserved" };
            e.violate("C28", sig, format!("space {}: reserved {} < committed {}", s.name, s.reserved_pages, s.committed_pages));
            return;
        }
    }
    e.verdict.counters.insert("c13_abstain_immortal_in_nursery_gc".into(), super::weak::IMMORTAL_NURSERY_ABSTAIN.load(Ordering::Relaxed));
    e.check_events();
    // C14: once the program is over, every worker parks with no goal current or requested
    if !e.is_nogc {
        let gl = g();
        let t0 = std::time::Instant::now();
        loop {
            let total = gl.sch_total.load(Ordering::SeqCst);
            let idle = total > 0 && gl.sch_parked.load(Ordering::SeqCst) == total && gl.sch_current.load(Ordering::SeqCst) == 0 && gl.sch_requests.load(Ordering::SeqCst) == 0;
            let concurrent_busy = mmtk::verif::concurrent_marking_in_progress(e.mmtk) == Some(true);
            if !idle && gl.sync.lock().unwrap().stop_requested {
                // a collection requested by an allocation that may not wait for it (`at_safepoint: false`) is
                // waiting for the mutators to stop: the driver reaches its safepoint now, as a VM thread would
                let m = (0..MAX_MUTATORS).find(|i| e.bound[*i]).unwrap_or(0);
                <ShadowVM<V> as mmtk::vm::Collection<ShadowVM<V>>>::block_for_gc(mutator_tls(m));
                e.after_possible_gc();
                cnt!(e, "yielded_to_pending_gc_at_end");
                if !e.verdict.ok {
                    return;
                }
                continue;
            }
            if idle || concurrent_busy || total == 0 {
                if idle {
                    cnt!(e, "c14_idle_at_end");
                }
                break;
            }
            if t0.elapsed().as_secs() >= 20 {
                e.violate("C14", "workers-not-idle-at-end", format!("20 s after the last operation the GC workers are not idle: parked {}/{}, current goal {}, requests {:#b}", gl.sch_parked.load(Ordering::SeqCst), total, gl.sch_current.load(Ordering::SeqCst), gl.sch_requests.load(Ordering::SeqCst)));
                return;
            }
            std::thread::sleep(std::time::Duration::from_millis(1));
        }
    }
    e.check_events();
    e.verdict.counters.insert("plan_idx".into(), super::case::PLANS.iter().position(|p| *p == e.case.plan).unwrap_or(99) as u64);
    e.verdict.counters.insert("build_base".into(), if cfg!(feature = "vo_bit") { 0 } else { 1 });
    e.verdict.counters.insert("workers".into(), e.case.workers.max(1) as u64);
    e.verdict.counters.insert("mutators_bound_at_end".into(), e.bound.iter().filter(|b| **b).count() as u64);
    e.verdict.counters.insert("sched_pauses".into(), e.sched.pauses);
    e.verdict.counters.insert("sched_stw_packets".into(), e.sched.stw_packets);
    e.verdict.counters.insert("sched_buckets_opened_by_update".into(), e.sched.buckets_opened_by_update);
    e.verdict.counters.insert("sched_opened_with_late_packets".into(), e.sched.opened_with_late_packets);
    e.verdict.counters.insert("sched_max_parallel_packets".into(), e.sched.max_parallel as u64);
    e.verdict.counters.insert("oom_calls".into(), g().oom_calls.load(Ordering::SeqCst));
    e.verdict.counters.insert("block_calls".into(), g().block_calls.load(Ordering::SeqCst));
    e.verdict.counters.insert("stop_calls".into(), g().stop_calls.load(Ordering::SeqCst));
    e.verdict.counters.insert("scan_calls".into(), g().scan_calls.load(Ordering::SeqCst));
    e.verdict.counters.insert("live_at_end".into(), e.objs.len() as u64);
}

/// C24: all side metadata tables in use occupy pairwise disjoint address ranges inside the reserved range.
pub fn check_side_specs<const V: usize>(e: &mut Exec<V>, seed: u32) {
    use mmtk::util::metadata::side_metadata::SideMetadataSpec;
    use mmtk::verif::side_metadata as sm;
    let infos = mmtk::verif::space_infos(e.mmtk);
    // distinct specs in use: (spec, first space that uses it)
    let mut specs: Vec<(SideMetadataSpec, &'static str)> = vec![];
    for s in &infos {
        for sp in s.global_specs.iter().chain(s.local_specs.iter()) {
            if !specs.iter().any(|(x, _)| x == sp) {
                specs.push((*sp, s.name));
            }
        }
    }
    let (base, reserved) = sm::reserved_range();
    let base = base.as_usize();
    // a contiguous table covers the whole 47-bit address space: one field per region
    const LOG_ADDRESS_SPACE: usize = 47;
    let range = |sp: &SideMetadataSpec| -> (usize, usize) {
        let start = sm::meta_location(sp, unsafe { Address::from_usize(0) }).0.as_usize();
        let regions_log = LOG_ADDRESS_SPACE - sp.log_bytes_in_region;
        let bits_log = regions_log + sp.log_num_of_bits;
        let bytes = 1usize << bits_log.saturating_sub(3);
        (start, start + bytes)
    };
    for (i, (s, sn)) in specs.iter().enumerate() {
        let (ss, se) = range(s);
        if ss < base || se > base + reserved {
            e.violate("C24", "table-outside-reserved-range", format!("side metadata table {} (space {}) occupies [{:#x},{:#x}), outside the reserved range [{:#x},{:#x})", s.name, sn, ss, se, base, base + reserved));
            return;
        }
        if se - ss != sm::address_range_size(s) {
            // informational: the harness and mmtk disagree about the size of a table
            cnt!(e, "c24_size_formula_mismatch");
        }
        for (t, tn) in specs.iter().skip(i + 1) {
            let (ts, te) = range(t);
            if ss < te && ts < se {
                e.violate("C24", "tables-overlap", format!("side metadata tables {} (space {}, [{:#x},{:#x})) and {} (space {}, [{:#x},{:#x})) overlap", s.name, sn, ss, se, t.name, tn, ts, te));
                return;
            }
            cnt!(e, "c24_pairs");
        }
    }
    // differential: the metadata byte of a heap address under one table is never the byte under another
    let mut rng = Lcg(seed as u64 ^ 0xA076_1D64_78BD_642F);
    let hs = mm::starting_heap_address().as_usize();
    let he = mm::last_heap_address().as_usize();
    let mut addrs: Vec<usize> = vec![hs, he - 8];
    for s in &infos {
        if s.start.as_usize() != 0 {
            addrs.push(s.start.as_usize());
            addrs.push(s.start.as_usize() + s.extent - 8);
        }
    }
    for _ in 0..500 {
        addrs.push((hs + (rng.next() as usize % (he - hs))) & !7);
    }
    for a in &addrs {
        let locs: Vec<usize> = specs.iter().map(|(s, _)| sm::meta_location(s, unsafe { Address::from_usize(*a) }).0.as_usize()).collect();
        for i in 0..locs.len() {
            for j in i + 1..locs.len() {
                if locs[i] == locs[j] {
                    e.violate("C24", "metadata-byte-aliased", format!("heap address {:#x}: tables {} and {} keep its metadata in the same byte {:#x}", a, specs[i].0.name, specs[j].0.name, locs[i]));
                    return;
                }
            }
        }
    }
    cnt!(e, "c24_specs", specs.len());
    cnt!(e, "c24_checked");
}
