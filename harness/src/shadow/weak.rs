//! VM-side weak reference processing (ephemeron table) for ShadowVM.

use super::vm::*;
use mmtk::scheduler::GCWorker;
use mmtk::util::{Address, ObjectReference};
use mmtk::vm::{ObjectTracer, ObjectTracerContext};
use std::collections::HashSet;

fn oref(a: usize) -> ObjectReference {
    ObjectReference::from_raw_address(unsafe { Address::from_usize(a) }).unwrap()
}

/// `is_reachable()` as a binding would use it, except that objects of the immortal space count as
/// reachable during nursery GCs: GenCopy/GenImmix nursery GCs reset the immortal space's mark bits and
/// never trace into it, so `ImmortalSpace::is_reachable` answers `false` even for rooted objects there
/// (contrary to the documentation of `ObjectReference::is_reachable`; DESIGN.md section 7, item 14 -
/// an observation outside the listed properties).  Counted in `IMMORTAL_NURSERY_ABSTAIN`.
pub static IMMORTAL_NURSERY_ABSTAIN: std::sync::atomic::AtomicU64 = std::sync::atomic::AtomicU64::new(0);
fn reach<const V: usize>(o: ObjectReference) -> bool {
    if o.is_reachable() {
        return true;
    }
    if mmtk::verif::last_gc_was_nursery(mmtk_ref::<V>()) == Some(true) && mmtk::verif::space_name_of(o.to_raw_address()) == "immortal" {
        IMMORTAL_NURSERY_ABSTAIN.fetch_add(1, std::sync::atomic::Ordering::Relaxed);
        return true;
    }
    false
}

/// Walk the strong graph in memory from `start` and require that everything
/// reached reports `is_reachable()`.
fn check_closure_reachable<const V: usize>(starts: &[usize]) -> Option<String> {
    let ro = variant(V).ref_offset;
    let mut seen: HashSet<usize> = HashSet::new();
    let mut stack: Vec<usize> = starts.to_vec();
    let mut budget = 5000usize;
    while let Some(a) = stack.pop() {
        if !seen.insert(a) {
            continue;
        }
        if budget == 0 {
            break;
        }
        budget -= 1;
        let o = oref(a);
        if !reach::<V>(o) {
            return Some(format!("object {:#x} in the closure of a value traced in the previous round is not reachable at the next process_weak_refs call", a));
        }
        // follow the forwarded copy if there is one
        let cur = o.get_forwarded_object().map(|n| n.to_raw_address().as_usize()).unwrap_or(a);
        let r = RawObj { start: cur - ro };
        let n = r.nrefs();
        let first = if matches!(r.kind(), KIND_SOFT | KIND_WEAK | KIND_PHANTOM) { 1 } else { 0 };
        for i in first..n {
            let v = r.slot(i);
            if v != 0 {
                stack.push(v);
            }
        }
    }
    None
}

pub fn process_weak_refs<const V: usize>(worker: &mut GCWorker<ShadowVM<V>>, tracer_context: impl ObjectTracerContext<ShadowVM<V>>) -> bool {
    let gl = g();
    let mut w = gl.weak.lock().unwrap();
    w.rounds_this_gc += 1;
    if w.forward_calls_this_gc > 0 {
        w.forward_after_process = false;
    }
    if !w.probed {
        w.probed = true;
        let res: Vec<bool> = w.probe_addrs.iter().map(|a| reach::<V>(oref(*a))).collect();
        w.probe_reachable = res;
    } else if w.closure_violation.is_none() {
        let starts = std::mem::take(&mut w.traced_last_round);
        if let Some(v) = check_closure_reachable::<V>(&starts) {
            w.closure_violation = Some(v);
        }
    }
    let mut traced_any = false;
    let mut traced_now = vec![];
    {
        let eph = &mut w.ephemerons;
        let need = eph.iter().any(|e| !e.traced && reach::<V>(oref(e.key)) && !reach::<V>(oref(e.value)));
        if need {
            tracer_context.with_tracer(worker, |tracer| {
                for e in eph.iter_mut() {
                    if e.traced {
                        continue;
                    }
                    let key = oref(e.key);
                    if reach::<V>(key) {
                        let v = oref(e.value);
                        if !reach::<V>(v) {
                            let n = tracer.trace_object(v);
                            e.value = n.to_raw_address().as_usize();
                            traced_now.push(e.value);
                            traced_any = true;
                        }
                        e.traced = true;
                    }
                }
            });
        } else {
            for e in eph.iter_mut() {
                if !e.traced && reach::<V>(oref(e.key)) {
                    e.traced = true;
                }
            }
        }
    }
    w.traced_last_round = traced_now;
    w.rets_this_gc.push(traced_any);
    let round = w.rounds_this_gc;
    if !traced_any {
        // final round: drop dead entries, update the survivors
        let mut kept = vec![];
        let old = std::mem::take(&mut w.ephemerons);
        for mut e in old {
            let key = oref(e.key);
            if reach::<V>(key) {
                e.key = key.get_forwarded_object().map(|n| n.to_raw_address().as_usize()).unwrap_or(e.key);
                let v = oref(e.value);
                e.value = v.get_forwarded_object().map(|n| n.to_raw_address().as_usize()).unwrap_or(e.value);
                e.traced = false;
                kept.push(e);
            } else {
                w.dropped.push((e.key_id, e.value_id));
            }
        }
        w.ephemerons = kept;
    }
    drop(w);
    ev(Ev::ProcessWeak { round, ret: traced_any });
    traced_any
}

pub fn forward_weak_refs<const V: usize>(worker: &mut GCWorker<ShadowVM<V>>, tracer_context: impl ObjectTracerContext<ShadowVM<V>>) {
    let gl = g();
    let mut w = gl.weak.lock().unwrap();
    w.forward_calls_this_gc += 1;
    let eph = &mut w.ephemerons;
    if !eph.is_empty() {
        tracer_context.with_tracer(worker, |tracer| {
            for e in eph.iter_mut() {
                e.key = tracer.trace_object(oref(e.key)).to_raw_address().as_usize();
                e.value = tracer.trace_object(oref(e.value)).to_raw_address().as_usize();
            }
        });
    }
    drop(w);
    ev(Ev::ForwardWeak);
}
