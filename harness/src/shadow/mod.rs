pub mod case;
pub mod exec;
pub mod probes;
pub mod vm;
pub mod weak;
pub mod sched;
