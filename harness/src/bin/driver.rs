use vh::runner::Tier;

fn main() {
    let args: Vec<String> = std::env::args().collect();
    if args.len() < 2 {
        eprintln!("usage: driver <ID> [--tier quick|thorough] [--replay FILE] | driver --list");
        std::process::exit(2);
    }
    if args[1] == "--list" {
        for e in vh::checks::registry() {
            println!("{}", e.id);
        }
        return;
    }
    let id = args[1].clone();
    let mut tier = match std::env::var("VERIF_TIER").as_deref() {
        Ok("thorough") => Tier::Thorough,
        _ => Tier::Quick,
    };
    let mut replay = None;
    let mut shard = None;
    let mut i = 2;
    while i < args.len() {
        match args[i].as_str() {
            "--tier" => {
                tier = if args.get(i + 1).map(|s| s.as_str()) == Some("thorough") { Tier::Thorough } else { Tier::Quick };
                i += 1;
            }
            "--shard" => {
                shard = Some((args[i + 1].clone(), args[i + 2].parse().unwrap(), args[i + 3].parse().unwrap()));
                i += 3;
            }
            "--replay" => {
                replay = args.get(i + 1).cloned();
                i += 1;
            }
            _ => {}
        }
        i += 1;
    }
    if std::env::var("VH_VERBOSE_PANIC").is_err() {
        // panics inside properties are caught (proptest / catch_unwind) and reported as failures;
        // keep stderr quiet and cheap (no backtrace formatting per generated case)
        std::panic::set_hook(Box::new(|_| {}));
    }
    let code = vh::checks::run(&id, tier, replay, shard);
    std::process::exit(code);
}
